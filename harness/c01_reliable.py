"""C01 - reliable data channels: every message exactly once, intact, in order."""
from __future__ import annotations

import aiortc.rtcsctptransport as sctp
from aiortc.rtcsctptransport import DataChunk

from sx import api as sx
from sx.runner import Harness

from .sctp_env import Env

PROPERTY = "C01"
MODULES = ["aiortc.rtcsctptransport", "aiortc.rtcdatachannel", "aiortc.utils"]
DEADLINE = {"quick": 400, "thorough": 2400}
U16, U32 = 0xFFFF, 0xFFFFFFFF
SIDS = [1, 3]


def _mk_chunks(ctx, layout, unordered, origin, ssn0):
    """layout: list of (stream index, fragments). Returns (chunks, messages) in sending order."""
    chunks, messages = [], []
    tsn = origin
    ssn = [ssn0[0], ssn0[1]]
    for mi, (si, nfrag) in enumerate(layout):
        frags = []
        for f in range(nfrag):
            c = DataChunk()
            c.flags = (sctp.SCTP_DATA_UNORDERED if unordered[si] else 0) | (sctp.SCTP_DATA_FIRST_FRAG if f == 0 else 0) | (sctp.SCTP_DATA_LAST_FRAG if f == nfrag - 1 else 0)
            c.tsn = tsn
            c.stream_id = SIDS[si]
            c.stream_seq = 0 if unordered[si] else ssn[si]
            c.protocol = sctp.WEBRTC_BINARY
            c.user_data = ctx.bytes("m%df%d" % (mi, f), 1)
            tsn = (tsn + 1) & U32
            frags.append(c)
            chunks.append(c)
        if not unordered[si]:
            ssn[si] = (ssn[si] + 1) & U16
        payload = frags[0].user_data
        for c in frags[1:]:
            payload = payload + c.user_data
        messages.append((si, payload))
    # messages are told apart by their first byte (so that "duplicate" is decidable on values)
    for i in range(len(messages)):
        for j in range(i):
            ctx.assume(messages[i][1][0] != messages[j][1][0], "sent messages have pairwise distinct first bytes")
    return chunks, messages


def _same(a, b):
    """Structural identity of two payloads (the same symbolic bytes, not merely equal values)."""
    ia = a.items if isinstance(a, sx.SymBytes) else list(a)
    ib = b.items if isinstance(b, sx.SymBytes) else list(b)
    if len(ia) != len(ib):
        return False
    for x, y in zip(ia, ib):
        if isinstance(x, int) and isinstance(y, int):
            if x != y:
                return False
        elif isinstance(x, int) or isinstance(y, int) or not x.t.eq(y.t):
            return False
    return True


def _crc():
    return (lambda d: 0) if sx.active() else None


def _clone(c):
    d = DataChunk()
    d.flags, d.tsn, d.stream_id, d.stream_seq, d.protocol, d.user_data = c.flags, c.tsn, c.stream_id, c.stream_seq, c.protocol, c.user_data
    return d


def h_recv_bmc(ctx, layout, k, unord, near):
    """Receive side: solver-chosen arrival schedule (loss, duplication, any reordering)."""
    layout = [tuple(x) for x in layout]
    unordered = [bool(unord & 1), bool(unord & 2)]
    origin = ctx.int("tsn_origin", 0, U32)
    ssn0 = [ctx.int("ssn_origin0", 0, U16), ctx.int("ssn_origin1", 0, U16)]
    if near:
        ctx.assume(origin >= U32 - 5, "TSN origin within 6 of the wrap point")
        ctx.assume(ssn0[0] >= U16 - 2, "SSN origin within 3 of the wrap point")
    with Env(crc=_crc()) as env:
        t = env.transport("controlled", established=True, local_tsn=1000, remote_tsn=origin)
        logs = [[], []]
        for si in (0, 1):
            ch = env.channel(t, id=SIDS[si], ordered=not unordered[si])
            ch.on("message", (lambda i: lambda m: logs[i].append(m))(si))
            t._get_inbound_stream(SIDS[si]).sequence_number = ssn0[si]
        chunks, messages = _mk_chunks(ctx, layout, unordered, origin, ssn0)
        sent = [[p for si, p in messages if si == i] for i in (0, 1)]
        n = len(chunks)
        arrived = set()
        for step in range(k):
            i = ctx.choice("arr%d" % step, list(range(n)))
            arrived.add(i)
            sx.run(t._receive_data_chunk(_clone(chunks[i])))
            if t._sack_needed:
                sx.run(t._send_sack())
            env.drain()
            # safety after every arrival
            for si in (0, 1):
                got = logs[si]
                if unordered[si]:
                    ctx.check(len(got) <= len(sent[si]), "unordered-no-more-than-sent")
                    for gi, g in enumerate(got):
                        ctx.check(sx.Or(*[sx.eq(g, s) for s in sent[si]]), "unordered-delivers-only-sent-messages")
                        for h in got[:gi]:
                            ctx.check(not _same(g, h), "unordered-no-duplicate-delivery")
                else:
                    ctx.check(len(got) <= len(sent[si]), "ordered-no-more-than-sent")
                    for g, s in zip(got, sent[si]):
                        ctx.check(sx.eq(g, s), "ordered-prefix-intact")
        ctx.reach("schedule-done")
        if len(arrived) == n:
            ctx.reach("everything-arrived")
            for si in (0, 1):
                ctx.check(len(logs[si]) == len(sent[si]), "all-delivered-once-everything-arrived")
            ctx.check(t._last_received_tsn == ((origin + n - 1) & U32), "cumulative-tsn-caught-up")
            ctx.check(len(t._sack_misordered) == 0, "no-misordered-left")
        ctx.observe("logs", logs)
        ctx.observe("cum", t._last_received_tsn)


def h_frag(ctx, n, kind, unordered):
    """Send side: fragmentation of one message of n bytes/characters."""
    tsn0 = ctx.int("local_tsn", 0, U32)
    ssn0 = ctx.int("ssn", 0, U16)
    with Env(crc=_crc()) as env:
        t = env.transport("controlling", established=True, local_tsn=tsn0, remote_tsn=5)
        ch = env.channel(t, id=1, ordered=not unordered)
        sx_dict_set(t._outbound_stream_seq, 1, ssn0)
        k = min(3, n // 2)
        if kind == "bytes":
            data = ctx.bytes("head", k) + bytes(n - k - min(3, n - k)) + ctx.bytes("tail", min(3, n - k))
            want = data
            ppid = sctp.WEBRTC_BINARY if n else sctp.WEBRTC_BINARY_EMPTY
        else:
            data = ctx.str("head", k, 0x20, 0x7E) + "x" * (n - k - min(3, n - k)) + ctx.str("tail", min(3, n - k), 0x20, 0x7E)
            want = data.encode("utf8") if n else b""
            ppid = sctp.WEBRTC_STRING if n else sctp.WEBRTC_STRING_EMPTY
        if n == 0:
            want = b"\x00"
        t._cwnd = ctx.choice("cwnd", [1200, 3600, 1 << 20])
        ch.send(data)
        env.drain()
        chunks = list(t._sent_queue) + list(t._outbound_queue)
        ctx.reach("fragmented")
        ctx.check(len(chunks) == max(1, -(-len(want) // 1200)), "fragment-count")
        ctx.check(t._local_tsn == ((tsn0 + len(chunks)) & U32), "local-tsn-advanced")
        total = b""
        for i, c in enumerate(chunks):
            ctx.check(c.tsn == ((tsn0 + i) & U32), "consecutive-tsn")
            ctx.check(c.stream_id == 1, "stream-id")
            ctx.check(c.stream_seq == (0 if unordered else ssn0), "one-stream-sequence-number")
            ctx.check(c.protocol == ppid, "ppid-matches-type")
            ctx.check(1 <= len(c.user_data) <= 1200, "fragment-size")
            ctx.check(bool(c.flags & sctp.SCTP_DATA_FIRST_FRAG) == (i == 0), "B-flag-only-on-first")
            ctx.check(bool(c.flags & sctp.SCTP_DATA_LAST_FRAG) == (i == len(chunks) - 1), "E-flag-only-on-last")
            ctx.check(bool(c.flags & sctp.SCTP_DATA_UNORDERED) == unordered, "U-flag")
            total = total + c.user_data
        ctx.check(sx.eq(total, want), "concatenation-equals-message")
        if not unordered:
            ctx.check(sx.eq(t._outbound_stream_seq[1], (ssn0 + 1) & U16), "stream-sequence-advanced")
        ctx.observe("n", len(chunks))


def sx_dict_set(d, k, v):
    d[k] = v


def h_e2e(ctx, kind, n, unordered):
    """send() on one transport, chunks handed verbatim to the other, value and type equality."""
    with Env(crc=_crc()) as env:
        a = env.transport("controlling", established=True, local_tsn=ctx.int("tsn", 0, U32), remote_tsn=7)
        b = env.transport("controlled", established=True, local_tsn=7, remote_tsn=a._local_tsn)
        cha = env.channel(a, id=1, ordered=not unordered)
        chb = env.channel(b, id=1, ordered=not unordered)
        other = env.channel(b, id=3)
        got, stray = [], []
        chb.on("message", lambda m: got.append(m))
        other.on("message", lambda m: stray.append(m))
        if kind == "str":
            data = ctx.str("s", n, 0, 0x10FFFF)
        else:
            data = ctx.bytes("b", n)
        cha.send(data)
        env.drain()
        for c in list(a._sent_queue) + list(a._outbound_queue):
            sx.run(b._receive_data_chunk(_clone(c)))
        env.drain()
        ctx.reach("delivered")
        ctx.check(len(got) == 1, "exactly-one-message-event")
        ctx.check(len(stray) == 0, "nothing-on-another-channel")
        if got:
            m = got[0]
            if kind == "str":
                ctx.check(isinstance(m, str) or type(m).__name__ == "SymStr", "type-is-str")
            else:
                ctx.check(isinstance(m, bytes) or type(m).__name__ == "SymBytes", "type-is-bytes")
            ctx.check(sx.eq(m, data), "value-equal")
        ctx.observe("got", got)


LAYOUTS_Q = [[(0, 1), (0, 1), (0, 1)], [(0, 2), (0, 1)], [(0, 1), (1, 1), (0, 1)], [(0, 3)], [(0, 1), (0, 2)]]
LAYOUTS_T = LAYOUTS_Q + [[(0, 2), (1, 2)], [(0, 1), (1, 2), (0, 1)], [(0, 1), (0, 1), (0, 1), (0, 1)], [(0, 3), (1, 1)], [(1, 1), (0, 2), (1, 1)]]


def _recv_jobs(tier):
    jobs = []
    if tier == "quick":
        for lay in LAYOUTS_Q:
            for unord in (0, 1):
                jobs.append({"layout": lay, "k": 4, "unord": unord, "near": True})
        jobs.append({"layout": LAYOUTS_Q[0], "k": 4, "unord": 0, "near": False})
        jobs.append({"layout": LAYOUTS_Q[1], "k": 4, "unord": 0, "near": False})
        return jobs
    for lay in LAYOUTS_T:
        n = sum(f for _, f in lay)
        for unord in (0, 1, 2, 3):
            if unord & 2 and not any(s == 1 for s, _ in lay):
                continue
            for near in (True, False):
                jobs.append({"layout": lay, "k": 5 if n <= 3 else 6 if near else 5, "unord": unord, "near": near})
    return jobs


def _frag_jobs(tier):
    ns = [0, 1, 2, 1199, 1200, 1201, 2400, 2401, 3601] if tier == "quick" else [0, 1, 2, 3, 1199, 1200, 1201, 2399, 2400, 2401, 3599, 3600, 3601, 4800, 4801, 12000, 65535, 65536]
    return [{"n": n, "kind": kind, "unordered": u} for n in ns for kind in ("bytes", "str") for u in (False, True) if not (u and tier == "quick" and n not in (0, 1201))]


ENC = [
    "aiortc.rtcsctptransport:RTCSctpTransport._receive_data_chunk",
    "aiortc.rtcsctptransport:RTCSctpTransport._mark_received",
    "aiortc.rtcsctptransport:InboundStream.add_chunk",
    "aiortc.rtcsctptransport:InboundStream.pop_messages",
    "aiortc.rtcsctptransport:RTCSctpTransport._receive",
    "aiortc.rtcsctptransport:RTCSctpTransport._data_channel_receive",
    "aiortc.rtcsctptransport:RTCSctpTransport._send_sack",
    "aiortc.rtcsctptransport:RTCSctpTransport._data_channel_send",
    "aiortc.rtcsctptransport:RTCSctpTransport._data_channel_flush",
    "aiortc.rtcsctptransport:RTCSctpTransport._send",
    "aiortc.rtcsctptransport:RTCSctpTransport._transmit",
    "aiortc.rtcdatachannel:RTCDataChannel.send",
    "aiortc.utils:uint32_gt",
    "aiortc.utils:uint16_gt",
]
STUBS = ["DTLS transport -> datagram list", "asyncio.ensure_future/call_later -> run queue / handle recorder", "time.time -> fixed instant", "crc32c real (concrete packets only)"]

def h_reuse(ctx, has_channel):
    """A stream id that the peer has reset starts from a clean inbound state, whether or not a
    local channel object still exists for it at that moment: the next incarnation of the channel
    delivers its first messages in order under reordering."""
    origin = ctx.int("tsn_origin", 0, U32)
    old_ssn = ctx.int("old_ssn", 0, U16)
    with Env(crc=(lambda d: 0) if sx.active() else None) as env:
        t = env.transport("controlled", established=True, local_tsn=5, remote_tsn=origin)

        async def rec(chunk):
            pass

        t._send_chunk = rec
        if has_channel:
            env.channel(t, id=1)
        t._get_inbound_stream(1).sequence_number = old_ssn  # the previous incarnation received old_ssn messages
        p = sctp.StreamResetOutgoingParam(request_sequence=ctx.int("req", 0, U32), response_sequence=0, last_tsn=(origin - 1) & U32, streams=[1])
        sx.run(t._receive_reconfig_param(p))
        ctx.reach("stream-reset-handled")
        if has_channel:
            ctx.check(1 not in t._data_channels or t._data_channels[1].readyState in ("closing", "closed"), "reset-closes-the-channel")
            t._data_channels.pop(1, None)
        log = []
        ch = env.channel(t, id=1)
        ch.on("message", log.append)
        msgs = []
        for k in (1, 0):  # the second message of the new incarnation overtakes the first
            c = DataChunk(flags=3)
            c.tsn, c.stream_id, c.stream_seq, c.protocol, c.user_data = (origin + k) & U32, 1, k, sctp.WEBRTC_BINARY, bytes([0x40 + k])
            sx.run(t._receive_data_chunk(c))
            msgs.append(list(log))
        ctx.check(msgs[0] == [], "later-message-is-held-until-the-first-arrives", repr(msgs[0]))
        ctx.check(msgs[1] == [b"\x40", b"\x41"], "new-incarnation-delivers-in-order", repr(msgs[1]))
    ctx.observe("log", [bytes(m) for m in log])


class _Yield:
    """Awaitable that suspends its task once (a transport send that really waits)."""

    def __await__(self):
        yield "suspended"


def h_interleave(ctx, n):
    """n messages handed to _send on one ordered stream while the transport's send suspends: the
    tasks interleave in a solver-chosen schedule.  Stream sequence numbers must still be distinct
    and follow TSN order, whatever the schedule."""
    with Env(crc=(lambda d: 0) if sx.active() else None) as env:
        t = env.transport("controlling", established=True, local_tsn=ctx.int("tsn_origin", 0, U32), remote_tsn=77)
        ssn0 = ctx.int("ssn_origin", 0, U16)
        t._outbound_stream_seq[1] = ssn0

        async def send_data(data):
            await _Yield()
            t.transport.sent.append(data)

        t.transport._send_data = send_data
        tasks = [t._send(1, sctp.WEBRTC_BINARY, bytes([0x41 + i])) for i in range(n)]
        live = list(range(n))
        started = []
        steps = 0
        while live:
            steps += 1
            if steps > 8 * n:
                ctx.fail("tasks-do-not-terminate")
                break
            i = live[0] if len(live) == 1 else ctx.choice("run%d" % steps, live)
            if i not in started:
                started.append(i)
            try:
                tasks[i].send(None)
            except StopIteration:
                live.remove(i)
        ctx.reach("interleaved")
        chunks = list(t._sent_queue) + list(t._outbound_queue)
        ctx.check(len(chunks) == n, "one-chunk-per-message")
        # in TSN order (= queue order) the stream sequence numbers are ssn0, ssn0+1, ...
        for k, c in enumerate(chunks):
            ctx.check(sx.eq(c.stream_seq, (ssn0 + k) & U16), "stream-sequence-numbers-follow-tsn-order-under-any-schedule", "chunk %d" % k)
        ctx.check(sx.eq(t._outbound_stream_seq[1], (ssn0 + n) & U16), "next-stream-sequence-number")
    ctx.observe("n", n)


def h_early_message(ctx, state, ordered):
    """A user message that SCTP delivers while the local channel object is not 'open' yet (the
    peer's DCEP ACK is still on its way, or overtaken) or is already 'closing' is still handed to
    the application, exactly once."""
    from aiortc.rtcdatachannel import RTCDataChannel, RTCDataChannelParameters

    with Env(crc=(lambda d: 0) if sx.active() else None) as env:
        t = env.transport("controlling", established=True, local_tsn=5, remote_tsn=200)
        if state == "connecting":
            ch = RTCDataChannel(t, RTCDataChannelParameters(label="l", id=1, ordered=ordered))  # OPEN sent, no ACK yet
            env.drain()
        else:
            ch = env.channel(t, id=1)
            if state == "closing":
                ch.close()
        ctx.check(ch.readyState == state, "pre-state")
        log = []
        ch.on("message", log.append)
        c = DataChunk(flags=3 | (0 if ordered else sctp.SCTP_DATA_UNORDERED))
        c.tsn, c.stream_id, c.stream_seq, c.protocol, c.user_data = 200, 1, 0, ctx.choice("ppid", [sctp.WEBRTC_BINARY, sctp.WEBRTC_STRING]), sx.mkbytes([ctx.int("payload", 0, 127)])  # (ASCII: valid as a string message too)
        sx.run(t._receive_data_chunk(c))
        env.drain()
        ctx.reach("early-message-handled")
        ctx.check(len(log) == 1, "message-delivered-exactly-once-whatever-the-channel-state", "%s: %d" % (state, len(log)))
    ctx.observe("n", len(log))


def _mixed_jobs(tier):
    from .c06_partial import _bmc_jobs

    jobs = _bmc_jobs(tier)
    return jobs[:4] + jobs[-1:] if tier == "quick" else jobs


def _mixed(ctx, **params):
    from .c06_partial import h_bmc

    return h_bmc(ctx, **params)


def _flush(ctx, **params):
    from .c13_channel import h_flush_params

    return h_flush_params(ctx, **params)


def _fwd_acked(ctx, **params):
    from .c06_partial import h_step_forward_acked

    return h_step_forward_acked(ctx, **params)


HARNESSES = {
    "close-resets-stream": Harness("close-resets-stream", lambda ctx, **kw: __import__("harness.c13_channel", fromlist=["h_states"]).h_states(ctx, **kw), lambda tier: [{"pre": "closed", "event": "dcep"}], style="STEP", bounds="close() on an established channel with a symbolic stream id 0..65534 (0 included): the stream is reset with the peer before the id can be re-used, so a later message cannot surface on a new channel with that id", encoded=["aiortc.rtcsctptransport:RTCSctpTransport._data_channel_close", "aiortc.rtcsctptransport:RTCSctpTransport._transmit_reconfig"], twin="event-processed", opts={"samples": 1}),
    "forward-tsn-keeps-reliable": Harness("forward-tsn-keeps-reliable", lambda ctx, **kw: __import__("harness.c06_partial", fromlist=["h_step_forward_tsn"]).h_step_forward_tsn(ctx, **kw), lambda tier: __import__("harness.c06_partial", fromlist=["_fwd_layouts"])._fwd_layouts(tier), style="STEP", bounds="interleavings of reliable and abandoned partially reliable fragments over consecutive TSNs with symbolic origin; which reliable fragments arrived before the FORWARD-TSN is solver-chosen: the reliable channel's message is still delivered", encoded=["aiortc.rtcsctptransport:RTCSctpTransport._receive_forward_tsn_chunk", "aiortc.rtcsctptransport:InboundStream.prune_chunks", "aiortc.rtcsctptransport:InboundStream.pop_messages"], twin=__import__("harness.c06_partial", fromlist=["HARNESSES"]).HARNESSES["step-forward-tsn"].twin, opts={"samples": 1}),
    "stray-init": Harness("stray-init", lambda ctx, **kw: __import__("harness.c05_nocrash", fromlist=["h_sctp_init_then_valid"]).h_sctp_init_then_valid(ctx, **kw), lambda tier: [{"role": r} for r in ("client", "server")], style="STEP", bounds="a duplicated / stray INIT (every field symbolic, also the peer's own initiate tag) reaching an established association, then the peer's next two messages: delivered once, in order", encoded=["aiortc.rtcsctptransport:RTCSctpTransport._receive_chunk"], twin="valid-after-init-handled", opts={"samples": 1}),
    "early-message": Harness("early-message", h_early_message, lambda tier: [{"state": st, "ordered": o} for st in ("connecting", "open", "closing") for o in (True, False)], style="STEP", bounds="one complete user message (binary or string, symbolic byte) arriving on the stream of a channel that is connecting / open / closing, ordered or unordered", encoded=["aiortc.rtcsctptransport:RTCSctpTransport._receive_data_chunk", "aiortc.rtcsctptransport:RTCSctpTransport._data_channel_receive"], twin="early-message-handled", opts={"samples": 1}),
    "interleave": Harness("interleave", h_interleave, lambda tier: [{"n": n} for n in ((2,) if tier == "quick" else (2, 3))], style="BMC over schedules", bounds="2 (quick) / 3 concurrent _send tasks on one ordered stream, every interleaving at the suspension point of the transport send; TSN and SSN origins symbolic", encoded=["aiortc.rtcsctptransport:RTCSctpTransport._send", "aiortc.rtcsctptransport:RTCSctpTransport._transmit"], stubs=["DTLS transport _send_data -> suspends once, then records the datagram"], twin="interleaved", opts={"samples": 1}),
    "forward-tsn-bookkeeping": Harness("forward-tsn-bookkeeping", _fwd_acked, lambda tier: [{"q": q} for q in ((0, 1) if tier == "quick" else (0, 1, 2))], style="STEP", bounds="sender with an outstanding FORWARD-TSN (1..3 abandoned chunks, one stream entry) and 0..1 (2) further chunks; one SACK: an acknowledged FORWARD-TSN leaves no (stream, sequence) entries that a later one could replay onto a stream id since re-used by a reliable channel", encoded=["aiortc.rtcsctptransport:RTCSctpTransport._update_advanced_peer_ack_point", "aiortc.rtcsctptransport:RTCSctpTransport._receive_sack_chunk"], twin="sack-over-forward-tsn-processed", opts={"samples": 1}),
    "flush-params": Harness("flush-params", _flush, lambda tier: [{"n": n} for n in ((2,) if tier == "quick" else (2, 3))], style="BMC over configurations", bounds="a reliable channel's message flushed in one call with messages of partially reliable / unordered channels (solver-chosen kinds and order): it is handed to _send without lifetime, retransmission limit, and ordered", encoded=["aiortc.rtcsctptransport:RTCSctpTransport._data_channel_flush"], stubs=["RTCSctpTransport._send -> recorder"], twin="flushed", opts={"samples": 1}),
    "reuse": Harness("reuse", h_reuse, lambda tier: [{"has_channel": h} for h in (True, False)], style="STEP", bounds="one stream id, previous incarnation at a symbolic stream sequence number, incoming stream reset with / without a local channel object, then two messages of the next incarnation in swapped order; TSN origin symbolic", encoded=["aiortc.rtcsctptransport:RTCSctpTransport._receive_reconfig_param", "aiortc.rtcsctptransport:InboundStream.pop_messages"], twin="stream-reset-handled", opts={"samples": 1}),
    "mixed-pr": Harness(
        "mixed-pr",
        _mixed,
        _mixed_jobs,
        style="BMC",
        bounds="a reliable ordered channel sharing the association with a partially reliable one (the C06 back-to-back BMC: <=3 messages of <=2 fragments, 3 (quick) / 4 solver-chosen loss/timer events, loss-free suffix): abandonment next door must not cost the reliable channel a message",
        encoded=["aiortc.rtcsctptransport:RTCSctpTransport._maybe_abandon", "aiortc.rtcsctptransport:RTCSctpTransport._update_advanced_peer_ack_point", "aiortc.rtcsctptransport:RTCSctpTransport._receive_forward_tsn_chunk"],
        twin="suffix-done",
        opts={"samples": 1},
    ),
    "recv-bmc": Harness(
        "recv-bmc",
        h_recv_bmc,
        _recv_jobs,
        style="BMC",
        bounds="<=2 streams, message layouts of <=3 (quick) / <=4 chunks incl. 2- and 3-fragment messages, ordered/unordered per stream; 4 (quick) / 5-6 solver-chosen arrivals (any loss, duplication, reordering); TSN origin 32-bit and SSN origins 16-bit symbolic (one run assumed within 6 / 3 of the wrap, one unconstrained); payload bytes symbolic",
        encoded=ENC,
        stubs=STUBS,
        outside=["> 4 chunks in flight, > 2 streams, messages > 3 fragments on the receive side"],
        twin="everything-arrived",
        opts={"samples": 1},
    ),
    "frag": Harness(
        "frag",
        h_frag,
        _frag_jobs,
        style="RT (length sweep)",
        bounds="one message of n in {0,1,2,1199..1201,2400,2401,3601} (quick) / 18 boundary lengths up to 65536 bytes or characters, symbolic content at both ends, local TSN and stream sequence origin symbolic, cwnd in {1200,3600,2^20}",
        encoded=ENC,
        stubs=STUBS,
        twin="fragmented",
    ),
    "e2e": Harness(
        "e2e",
        h_e2e,
        lambda tier: [{"kind": k, "n": n, "unordered": u} for k, ns in (("str", (0, 1, 2, 3)), ("bytes", (0, 1, 4))) for n in ns for u in (False, True) if not (u and n > 1)],
        style="RT",
        bounds="str of 0..3 code points over full Unicode (surrogates excluded), bytes of 0..4; both empties; local TSN symbolic",
        encoded=ENC,
        stubs=STUBS,
        twin="delivered",
    ),
}
