"""C02 - data channel traffic always drains: no-wedge invariants (STEP) + back-to-back BMC.

The liveness claim is reduced to safety invariants that one symbolic step must preserve from an
arbitrary invariant-satisfying sender state (DESIGN 4 C02): A accounting, T timer, Q queues,
R retransmission, P progress.
"""
from __future__ import annotations

from collections import deque

import aiortc.rtcsctptransport as sctp
from aiortc.rtcsctptransport import DataChunk, SackChunk

from sx import api as sx
from sx.runner import Harness

from .sctp_env import Env, State

PROPERTY = "C02"
MODULES = ["aiortc.rtcsctptransport", "aiortc.rtcdatachannel", "aiortc.utils"]
DEADLINE = {"quick": 400, "thorough": 2400}
U16, U32 = 0xFFFF, 0xFFFFFFFF


def _crc():
    return (lambda d: 0) if sx.active() else None


def _chunk(tsn, book):
    c = DataChunk(flags=3)
    c.tsn = tsn
    c.stream_id = 1
    c.stream_seq = 0
    c.protocol = 53
    c.user_data = b"x"
    c._abandoned = False
    c._acked = False
    c._book_size = book
    c._expiry = None
    c._max_retransmits = None
    c._misses = 0
    c._retransmit = False
    c._sent_count = 1
    c._sent_time = 999.5
    return c


def _flight_ghost(t):
    s = 0
    for c in t._sent_queue:
        s = s + sx.ite(sx.Or(c._acked, c._retransmit, c._abandoned, c._sent_count == 0), 0, c._book_size)
    return s


def _check_inv(ctx, t, where):
    """A (accounting), T (timer), Q (queues), well-formedness."""
    ctx.check(t._flight_size == _flight_ghost(t), where + "-A-flight-size-equals-outstanding-bytes")
    armed = t._t3_handle is not None and t._t3_handle.pending
    fo = getattr(t, "_forward_tsn_outstanding", None)  # an unacknowledged FORWARD-TSN (C06)
    fwd_outstanding = bool(fo()) if fo is not None else False
    ctx.check(armed == (len(t._sent_queue) > 0 or fwd_outstanding), where + "-T-t3-armed-iff-data-outstanding")
    ctx.check(not (len(t._outbound_queue) > 0 and len(t._sent_queue) == 0), where + "-Q-outbound-waits-only-behind-outstanding-data")
    if t._association_state == t.State.ESTABLISHED and where != "pre":
        # at quiescence nothing is parked above the association (a parked message may wait for the
        # next acknowledgement, but only while there is something left to be acknowledged)
        quiet = len(t._sent_queue) == 0 and len(t._outbound_queue) == 0 and not fwd_outstanding
        ctx.check(not (quiet and len(t._data_channel_queue) > 0), where + "-Q2-nothing-parked-in-the-channel-queue-at-quiescence")
    for c in t._sent_queue:
        ctx.check(sx.Not(sx.And(c._acked, c._retransmit)), where + "-gap-acked-chunk-not-marked-for-retransmission")
        ctx.check(sx.And(c._misses >= 0, c._misses <= 2), where + "-miss-counter-range")
    ctx.check(t._flight_size >= 0, where + "-flight-size-non-negative")


def _sym_sender(ctx, env, q, nout, pr=False):
    """Arbitrary sender state under the representation invariant.  pr: the q outstanding chunks
    are the fragments of one partially reliable message (maxRetransmits = 0) instead of q messages."""
    base = ctx.int("base_tsn", 0, U32)
    t = env.transport("controlling", established=True, local_tsn=base, remote_tsn=77)
    sentlog = []

    async def rec_send_chunk(chunk):
        sentlog.append(chunk)

    t._send_chunk = rec_send_chunk
    t._cwnd = ctx.int("cwnd", 1200, 1 << 18)
    t._ssthresh = ctx.int("ssthresh", 4800, 1 << 18)
    t._partial_bytes_acked = ctx.int("pba", 0, 1 << 18)
    t._fast_recovery_transmit = ctx.bool("fr_transmit")
    chunks = []
    for i in range(q):
        c = _chunk((base + i) & U32, ctx.int("book%d" % i, 1, 1200))
        c._acked = ctx.bool("acked%d" % i)
        c._retransmit = ctx.bool("retransmit%d" % i)
        c._misses = ctx.int("misses%d" % i, 0, 2)
        c._sent_count = ctx.int("sent_count%d" % i, 1, 3)
        ctx.assume(sx.Not(sx.And(c._acked, c._retransmit)), "Inv: a gap-acked chunk is not marked for retransmission")
        if pr:
            c.flags = (2 if i == 0 else 0) | (1 if i == q - 1 else 0)
            c.stream_id = 3
            c._max_retransmits = 0
            c._sent_count = 1  # (a second transmission would already have abandoned it)
            c._retransmit = False
        chunks.append(c)
    if q:
        ctx.assume(sx.Not(chunks[0]._acked), "Inv: the earliest outstanding chunk is not gap-acked (gap blocks start beyond the cumulative TSN + 1)")
    t._sent_queue = deque(chunks)
    for j in range(nout):
        t._outbound_queue.append(_chunk((base + q + j) & U32, ctx.int("obook%d" % j, 1, 1200)))
        t._outbound_queue[-1]._sent_count = 0
    t._local_tsn = (base + q + nout) & U32
    t._last_sacked_tsn = (base - 1) & U32
    t._advanced_peer_ack_tsn = (base - 1) & U32
    t._flight_size = _flight_ghost(t)
    fre = ctx.choice("fast_recovery", ["none"] + ["at%d" % i for i in range(q)])
    t._fast_recovery_exit = None if fre == "none" else chunks[int(fre[2:])].tsn
    if q:
        t._t3_start()
    if nout:
        ctx.assume(q > 0, "Inv Q: queued chunks wait only behind outstanding data")
    return t, base, chunks, sentlog


def h_step_sack(ctx, q, nout, ngaps):
    """One SACK (symbolic cumulative point and gap blocks) from an arbitrary sender state."""
    with Env(crc=_crc()) as env:
        t, base, chunks, sentlog = _sym_sender(ctx, env, q, nout)
        _check_inv(ctx, t, "pre")
        s = SackChunk()
        adv = ctx.int("cum_advance", -1, q + 1)  # cumulative TSN relative to base-1
        ctx.assume(adv <= q + nout, "the peer acknowledges only TSNs that were assigned (a SACK beyond that is dropped, C05)")
        s.cumulative_tsn = (base - 1 + adv) & U32
        s.advertised_rwnd = 131072
        s.gaps = []
        for g in range(ngaps):
            a = ctx.int("gap%d_start" % g, 1, q + 2)
            b = ctx.int("gap%d_end" % g, 1, q + 2)
            s.gaps.append((a, b))
        qlen_pre = len(t._sent_queue)
        sx.run(t._receive_sack_chunk(s))
        env.drain()
        ctx.reach("sack-processed")
        _check_inv(ctx, t, "post")
        # P: a SACK covering the earliest outstanding chunk strictly shortens the sent queue
        if qlen_pre:
            covered = adv >= 1
            if covered is True or (not isinstance(covered, bool) and bool(covered)):
                removed = [c for c in chunks if all(c is not x for x in t._sent_queue)]
                ctx.check(len(removed) >= 1, "P-cumulative-ack-removes-earliest-chunk")
                ctx.check(all(c is not chunks[0] for c in t._sent_queue), "P-earliest-chunk-gone")
        ctx.check(sx.And(t._cwnd >= 1200, t._cwnd <= (1 << 18) + 1200), "cwnd-stays-positive-and-bounded")
        ctx.observe("flight", t._flight_size)
        ctx.observe("qlen", len(t._sent_queue))


def h_step_t3(ctx, q, nout):
    """T3 expiry + the transmit it schedules, from an arbitrary sender state."""
    with Env(crc=_crc()) as env:
        t, base, chunks, sentlog = _sym_sender(ctx, env, q, nout)
        _check_inv(ctx, t, "pre")
        h = t._t3_handle
        h.fired = True
        t._t3_expired()
        env.drain()
        ctx.reach("t3-processed")
        _check_inv(ctx, t, "post")
        # R: the earliest outstanding chunk has been handed to the transport again
        ctx.check(len(sentlog) >= 1 and sentlog[0] is chunks[0], "R-earliest-chunk-retransmitted-after-t3")
        ctx.check(t._cwnd == 1200, "cwnd-collapsed-to-one-mtu")
        ctx.observe("flight", t._flight_size)
        ctx.observe("resent", len(sentlog))


def h_step_send(ctx, q, nout, nfrag):
    """A new message handed to _send from an arbitrary sender state."""
    with Env(crc=_crc()) as env:
        t, base, chunks, sentlog = _sym_sender(ctx, env, q, nout)
        _check_inv(ctx, t, "pre")
        n0 = len(t._sent_queue) + len(t._outbound_queue)
        # the stream has carried any number of ordered messages before (16-bit sequence counter)
        ssn = ctx.int("stream_seq", 0, 0xFFFF)
        t._outbound_stream_seq[1] = ssn
        sx.run(t._send(1, 53, bytes(1200 * (nfrag - 1) + 7)))
        env.drain()
        ctx.reach("send-processed")
        _check_inv(ctx, t, "post")
        new = (list(t._sent_queue) + list(t._outbound_queue))[n0:]
        for c in new:
            ctx.check(sx.eq(c.stream_seq, ssn), "fragments-carry-the-stream-sequence-number")
            sx.to_bytes(c)  # must serialise for every 16-bit sequence number
        ctx.check(sx.eq(t._outbound_stream_seq[1], (ssn + 1) & 0xFFFF), "stream-sequence-number-advances-modulo-2^16")
        ctx.check(len(t._sent_queue) + len(t._outbound_queue) == n0 + nfrag, "nothing-lost-between-queues")
        ctx.check(len(t._sent_queue) >= 1, "Q-something-outstanding-after-send")
        ctx.observe("flight", t._flight_size)


# ------------------------------------------------------------------------------- back-to-back BMC
def _wire(env, origin_a, origin_b):
    a = env.transport("controlling", established=True, local_tsn=origin_a, remote_tsn=origin_b, vtag=1, rtag=2)
    b = env.transport("controlled", established=True, local_tsn=origin_b, remote_tsn=origin_a, vtag=2, rtag=1)
    return a, b


def h_bmc(ctx, nmsg, events, near):
    """Two real transports back to back; the solver chooses deliver / drop / duplicate / T3 events."""
    oa = ctx.int("origin_a", 0, U32)
    ob = ctx.int("origin_b", 0, U32)
    if near:
        ctx.assume(oa >= U32 - 2, "sender TSN origin within 3 of the wrap")
    with Env(crc=_crc()) as env:
        a, b = _wire(env, oa, ob)
        wires = {"ab": [], "ba": []}

        def hook(t, key):
            async def send_chunk(chunk):
                wires[key].append(chunk)

            t._send_chunk = send_chunk

        hook(a, "ab")
        hook(b, "ba")
        cha = env.channel(a, id=1)
        chb = env.channel(b, id=1)
        got = []
        chb.on("message", lambda m: got.append(m))
        msgs = [bytes([65 + i]) for i in range(nmsg)]
        a._cwnd = 1200 * 8
        for m in msgs:
            cha.send(m)
        env.drain()

        def deliver(chunk, dst):
            async def go():
                if isinstance(chunk, DataChunk):
                    c = DataChunk(flags=chunk.flags)
                    c.tsn, c.stream_id, c.stream_seq, c.protocol, c.user_data = chunk.tsn, chunk.stream_id, chunk.stream_seq, chunk.protocol, chunk.user_data
                    await dst._receive_chunk(c)
                else:
                    await dst._receive_chunk(chunk)
                if dst._sack_needed:
                    await dst._send_sack()

            sx.run(go())
            env.drain()

        for step in range(events):
            opts = []
            for key in ("ab", "ba"):
                for i in range(len(wires[key])):
                    opts.append(("deliver", key, i))
            if a._t3_handle is not None and a._t3_handle.pending:
                opts.append(("t3", "a", 0))
            if not opts:
                break
            kind, key, i = ctx.choice("ev%d" % step, opts)
            if kind == "deliver":
                mode = ctx.choice("mode%d" % step, ["deliver", "drop", "duplicate"])
                chunk = wires[key][i]
                if mode != "duplicate":
                    wires[key].pop(i)
                if mode != "drop":
                    deliver(chunk, b if key == "ab" else a)
            else:
                a._t3_handle.fired = True
                a._t3_expired()
                env.drain()
            _check_inv(ctx, a, "bmc")
            ctx.check(len(got) <= len(msgs) and all(g == m for g, m in zip(got, msgs)), "bmc-prefix-delivery")
        ctx.reach("bmc-done")
        # fault-free suffix: deliver everything in order, fire T3 when nothing is on the wire
        for _ in range(6 * nmsg + 8):
            if wires["ab"]:
                deliver(wires["ab"].pop(0), b)
            elif wires["ba"]:
                deliver(wires["ba"].pop(0), a)
            elif a._t3_handle is not None and a._t3_handle.pending:
                a._t3_handle.fired = True
                a._t3_expired()
                env.drain()
            else:
                break
        ctx.reach("suffix-done")
        ctx.check(got == msgs, "everything-delivered-after-fault-free-suffix")
        ctx.check(len(a._sent_queue) == 0 and len(a._outbound_queue) == 0 and len(a._data_channel_queue) == 0, "sender-quiescent")
        ctx.check(a._flight_size == 0, "flight-size-zero-at-quiescence")
        ctx.check(cha.bufferedAmount == 0, "bufferedAmount-zero-at-quiescence")
        ctx.check(not (a._t3_handle is not None and a._t3_handle.pending), "t3-stopped-at-quiescence")
        ctx.observe("got", got)


def _step_jobs(kind):
    def jobs(tier):
        out = []
        qs = (1, 2, 3) if tier == "quick" else (1, 2, 3, 4)
        for q in qs:
            for nout in (0, 1) if tier == "quick" else (0, 1, 2):
                if kind == "sack":
                    for ngaps in (0, 1, 2):
                        if tier == "quick" and ((q == 3 and ngaps == 2) or (q == 3 and nout and ngaps)):
                            continue
                        out.append({"q": q, "nout": nout, "ngaps": ngaps})
                elif kind == "t3":
                    out.append({"q": q, "nout": nout})
                else:
                    for nfrag in (1, 2):
                        out.append({"q": q, "nout": nout, "nfrag": nfrag})
        if kind == "send":
            out.append({"q": 0, "nout": 0, "nfrag": 1})
            out.append({"q": 0, "nout": 0, "nfrag": 5})
        return out

    return jobs


ENC = [
    "aiortc.rtcsctptransport:RTCSctpTransport._receive_sack_chunk",
    "aiortc.rtcsctptransport:RTCSctpTransport._t3_expired",
    "aiortc.rtcsctptransport:RTCSctpTransport._transmit",
    "aiortc.rtcsctptransport:RTCSctpTransport._send",
    "aiortc.rtcsctptransport:RTCSctpTransport._flight_size_increase",
    "aiortc.rtcsctptransport:RTCSctpTransport._flight_size_decrease",
    "aiortc.rtcsctptransport:RTCSctpTransport._update_advanced_peer_ack_point",
    "aiortc.rtcsctptransport:RTCSctpTransport._data_channel_flush",
    "aiortc.rtcsctptransport:RTCSctpTransport._send_sack",
    "aiortc.rtcsctptransport:RTCSctpTransport._receive_data_chunk",
    "aiortc.rtcsctptransport:RTCSctpTransport._mark_received",
    "aiortc.rtcsctptransport:RTCSctpTransport._t3_start",
    "aiortc.rtcsctptransport:RTCSctpTransport._t3_restart",
    "aiortc.rtcsctptransport:RTCSctpTransport._t3_cancel",
    "aiortc.rtcsctptransport:RTCSctpTransport._maybe_abandon",
]
STUBS = [
    "loop.call_later -> handle recorder; asyncio.ensure_future -> run queue drained by the harness",
    "time.time -> fixed instant (RTO float arithmetic runs on concrete values)",
    "_send_chunk -> recorder (STEP) / in-memory wire carrying chunk objects (BMC); the wire format is C08's subject",
]

def _mixed_jobs(tier):
    from .c06_partial import _bmc_jobs

    jobs = _bmc_jobs(tier)
    return jobs[:4] + jobs[-1:] if tier == "quick" else jobs


def _mixed(ctx, **params):
    from .c06_partial import h_bmc

    return h_bmc(ctx, **params)


def _recv_jobs(tier):
    from .c01_reliable import _recv_jobs as jobs

    js = jobs(tier)
    return [j for j in js if not j["unord"]][:3] if tier == "quick" else [j for j in js if not j["unord"]]


def _recv(ctx, **params):
    from .c01_reliable import h_recv_bmc

    return h_recv_bmc(ctx, **params)


def _parked(ctx, **params):
    from .c06_partial import h_step_forward_acked

    return h_step_forward_acked(ctx, **params)


HARNESSES = {
    "buffered-flow": Harness("buffered-flow", lambda ctx, **kw: __import__("harness.c13_channel", fromlist=["h_buffered_flow"]).h_buffered_flow(ctx, **kw), lambda tier: [{"n1": a, "n2": b, "established": e} for a in (0, 3) for b in (1, 2) for e in (True, False)], style="STEP", bounds="two sends (bytes 0 or 3, str 1..2 code points < U+0800, i.e. also characters of two UTF-8 bytes), established or not, then drain: bufferedAmount equals the queued bytes and returns to 0", encoded=["aiortc.rtcsctptransport:RTCSctpTransport._data_channel_send", "aiortc.rtcsctptransport:RTCSctpTransport._data_channel_flush", "aiortc.rtcdatachannel:RTCDataChannel._addBufferedAmount"], twin="flow-done"),
    "buffered-amount": Harness("buffered-amount", lambda ctx, **kw: __import__("harness.c13_channel", fromlist=["h_buffered"]).h_buffered(ctx, **kw), lambda tier: [{}], style="STEP", bounds="one _addBufferedAmount step from a symbolic amount / threshold, with an application handler that reads bufferedAmount and sends from inside bufferedamountlow: the accounting that must return to 0 at quiescence stays exact", encoded=["aiortc.rtcdatachannel:RTCDataChannel._addBufferedAmount"], twin="added", opts={"samples": 1}),
    "parked-flush": Harness("parked-flush", _parked, lambda tier: [{"q": 0, "parked": True}, {"q": 1, "parked": True}], style="STEP", bounds="a reliable channel's message parked in the channel queue while only a FORWARD-TSN (and 0..1 chunks) is outstanding; one SACK with symbolic cumulative point: at quiescence nothing may stay parked", encoded=["aiortc.rtcsctptransport:RTCSctpTransport._receive_sack_chunk", "aiortc.rtcsctptransport:RTCSctpTransport._data_channel_flush"], twin="sack-over-forward-tsn-processed", opts={"samples": 1}),
    "recv-delivery": Harness(
        "recv-delivery",
        _recv,
        _recv_jobs,
        style="BMC",
        bounds="receiver side of 'everything sent is delivered': the C01 receive BMC (<=4 chunks incl. fragmented messages followed by another message, 4 (quick) / 5-6 solver-chosen arrivals with loss, duplication and reordering, then everything arrives) on ordered streams",
        encoded=["aiortc.rtcsctptransport:RTCSctpTransport._receive_data_chunk", "aiortc.rtcsctptransport:InboundStream.add_chunk", "aiortc.rtcsctptransport:InboundStream.pop_messages"],
        twin="everything-arrived",
        opts={"samples": 1},
    ),
    "mixed-pr": Harness(
        "mixed-pr",
        _mixed,
        _mixed_jobs,
        style="BMC",
        bounds="reliable traffic sharing the association with a partially reliable channel (the C06 back-to-back BMC: <=3 messages of <=2 fragments, 3 (quick) / 4 solver-chosen loss/timer events, then a loss-free suffix): everything sent on the reliable channel is delivered",
        encoded=["aiortc.rtcsctptransport:RTCSctpTransport._maybe_abandon", "aiortc.rtcsctptransport:RTCSctpTransport._update_advanced_peer_ack_point", "aiortc.rtcsctptransport:RTCSctpTransport._receive_forward_tsn_chunk"],
        twin="suffix-done",
        opts={"samples": 1},
    ),
    "step-sack": Harness("step-sack", h_step_sack, _step_jobs("sack"), style="STEP", bounds="sent queue 1..3 (quick) / 1..4, outbound queue 0..1 / 0..2; per chunk symbolic acked/retransmit/misses 0..2/book size 1..1200/sent count; cwnd, ssthresh, partial_bytes_acked, fast-recovery state, TSN origin symbolic; SACK with symbolic cumulative point and <=2 symbolic gap blocks", encoded=ENC, stubs=STUBS, twin="sack-processed", opts={"samples": 1}),
    "step-t3": Harness("step-t3", h_step_t3, _step_jobs("t3"), style="STEP", bounds="same state space; one T3 expiry followed by the transmit it schedules", encoded=ENC, stubs=STUBS, twin="t3-processed", opts={"samples": 1}),
    "step-send": Harness("step-send", h_step_send, _step_jobs("send"), style="STEP", bounds="same state space; one _send of a 1- or 2-fragment (from the empty state also 5-fragment) message on a stream whose 16-bit outbound sequence counter is symbolic", encoded=ENC, stubs=STUBS, twin="send-processed", opts={"samples": 1}),
    "bmc": Harness(
        "bmc",
        h_bmc,
        lambda tier: [{"nmsg": n, "events": e, "near": nr} for n, e in (((2, 3), (3, 3)) if tier == "quick" else ((2, 4), (3, 4), (2, 5), (3, 5))) for nr in (False, True)],
        style="BMC (history witness)",
        bounds="two real transports wired back to back (chunk objects on the wire), 2..3 single-chunk messages, 3 (quick) / 4..5 solver-chosen events from {deliver, drop, duplicate any datagram in either direction, fire T3}, both TSN origins symbolic; then a fault-free suffix",
        encoded=ENC,
        stubs=STUBS,
        twin="suffix-done",
        opts={"samples": 1},
    ),
}
