"""C16 - H.264 / VP8 packetisation is lossless and respects the payload size limit."""
from __future__ import annotations

from aiortc.codecs import depayload
from aiortc.codecs.h264 import H264Encoder, H264PayloadDescriptor
from aiortc.codecs.vpx import Vp8Encoder, VpxPayloadDescriptor, vp8_depayload
from aiortc.rtcrtpparameters import RTCRtpCodecParameters

from sx import api as sx
from sx.runner import Harness

PROPERTY = "C16"
MODULES = ["aiortc.codecs.h264", "aiortc.codecs.vpx", "aiortc.codecs"]
DEADLINE = {"quick": 300, "thorough": 1800}
START = b"\x00\x00\x00\x01"
H264 = RTCRtpCodecParameters(mimeType="video/H264", clockRate=90000, payloadType=98)
VP8 = RTCRtpCodecParameters(mimeType="video/VP8", clockRate=90000, payloadType=96)


def _nal(ctx, i, size):
    """NAL unit of `size` bytes: symbolic header (F, NRI, type 1..23), symbolic bytes at both
    ends of the body, 0xAA filler in between (no start-code pattern can arise)."""
    f_nri = ctx.int("nal%d_fnri" % i, 0, 7) << 5
    typ = ctx.int("nal%d_type" % i, 1, 23)
    body = size - 1
    k = min(2, body // 2)
    head = ctx.bytes("nal%d_head" % i, k)
    tail = ctx.bytes("nal%d_tail" % i, min(2, body - k))
    return sx.mkbytes([f_nri | typ]) + head + b"\xaa" * (body - len(head) - len(tail)) + tail


def h_h264(ctx, sizes):
    nals = [_nal(ctx, i, s) for i, s in enumerate(sizes)]
    payloads = H264Encoder._packetize(nals)
    ctx.reach("packetized")
    for p in payloads:
        ctx.check(len(p) <= 1300, "payload-at-most-1300-bytes")
    # lossless: depacketise in order and concatenate
    out = b""
    for p in payloads:
        out = out + depayload(H264, p)
    want = b""
    for n in nals:
        want = want + START + n
    ctx.check(sx.eq(out, want), "depacketised-stream-equals-nal-units-with-start-codes")
    # structure of fragmented NAL units
    pi = 0
    for n, size in zip(nals, sizes):
        if size > 1300:
            nfrag = -(-(size - 1) // 1298)
            frags = payloads[pi : pi + nfrag]
            ctx.check(len(frags) == nfrag, "fragment-count-is-ceil")
            for j, f in enumerate(frags):
                ctx.check(sx.eq(f[0] & 0x1F, 28), "fu-indicator-type-28")
                ctx.check(sx.eq(f[0] & 0xE0, n[0] & 0xE0), "fu-indicator-keeps-f-and-nri")
                ctx.check(sx.eq(f[1] & 0x1F, n[0] & 0x1F), "fu-header-keeps-nal-type")
                ctx.check(sx.eq((f[1] & 0x80) != 0, j == 0), "start-bit-only-on-first-fragment")
                ctx.check(sx.eq((f[1] & 0x40) != 0, j == nfrag - 1), "end-bit-only-on-last-fragment")
                desc, _ = H264PayloadDescriptor.parse(f)
                ctx.check(desc.first_fragment == (j == 0), "descriptor-first-fragment-flag")
            pi += nfrag
        else:
            # single NAL or part of a STAP-A aggregate: skip the payloads that carry it
            # (aggregation is checked through the lossless round trip above)
            break
    ctx.observe("n", len(payloads))
    ctx.observe("sizes", [len(p) for p in payloads])


def h_split(ctx, sizes, four):
    """_split_bitstream recovers the NAL units from a byte stream with 3- or 4-byte start codes."""
    nals = [_nal(ctx, i, s) for i, s in enumerate(sizes)]
    buf = b""
    for i, n in enumerate(nals):
        ctx.assume(n[-1] != 0, "a NAL unit does not end in a zero byte (RBSP trailing bits)")
        if len(n) >= 3:
            ctx.assume(sx.Not(sx.And(n[1] == 0, n[2] == 0)), "no start code inside the NAL")
            ctx.assume(sx.Not(sx.And(n[-3] == 0, n[-2] == 0, n[-1] == 1)), "no start code inside the NAL")
        buf = buf + (START if (four >> i) & 1 else START[1:]) + n
    got = list(H264Encoder._split_bitstream(buf))
    ctx.reach("split")
    ctx.check(len(got) == len(nals), "split-count")
    for g, n in zip(got, nals):
        ctx.check(sx.eq(g, n), "split-recovers-nal-unit")
    ctx.observe("n", len(got))


def h_vp8(ctx, size):
    pid = ctx.int("picture_id", 0, (1 << 15) - 1)
    k = min(2, size // 2)
    buf = ctx.bytes("head", k) + b"\x55" * (size - k - min(2, size - k)) + ctx.bytes("tail", min(2, size - k))
    payloads = Vp8Encoder._packetize(buf, pid)
    ctx.reach("packetized")
    out = b""
    for j, p in enumerate(payloads):
        ctx.check(len(p) <= 1300, "payload-at-most-1300-bytes")
        d, data = VpxPayloadDescriptor.parse(p)
        ctx.check(d.partition_start == (1 if j == 0 else 0), "partition-start-only-on-first-packet")
        ctx.check(sx.eq(d.picture_id, pid), "picture-id-carried-on-every-packet")
        ctx.check(d.partition_id == 0, "partition-id-zero")
        out = out + vp8_depayload(p)
    ctx.check(sx.eq(out, buf), "depacketised-bytes-verbatim")
    ctx.check(len(payloads) == -(-size // 1297 if size else 0) or len(payloads) == -(-size // 1296), "packet-count")
    ctx.observe("n", len(payloads))


class _Pkt:
    """Stand-in for av.Packet (pre-encoded VP8 frame handed to pack())."""

    def __init__(self, data, pts):
        import fractions

        self.data, self.pts, self.time_base = data, pts, fractions.Fraction(1, 90000)

    def __bytes__(self):
        return self.data


class _Codec:
    """Stand-in for the libvpx encoder context: returns one pre-set package per frame."""

    def __init__(self, data, bit_rate):
        self.width = self.height = 16
        self.bit_rate = bit_rate
        self.data = data

    def encode(self, frame):
        return [self.data]


def h_vp8_stream(ctx, path):
    """Inductive step over the encoder's picture-id state: from ANY 15-bit picture id, two
    successive frames carry id and id+1 (mod 2^15), and the state stays a 15-bit id."""
    import fractions

    enc = Vp8Encoder()
    pid = ctx.int("picture_id", 0, (1 << 15) - 1)
    enc.picture_id = pid
    ids = []
    for k in range(2):
        data = ctx.bytes("frame%d" % k, 2)
        if path == "pack":
            payloads, ts = enc.pack(_Pkt(data, 3000 * k))
        else:
            from av import VideoFrame

            fr = VideoFrame(width=16, height=16, format="yuv420p")
            fr.pts, fr.time_base = 3000 * k, fractions.Fraction(1, 90000)
            enc.codec = _Codec(data, enc.target_bitrate)
            payloads, ts = enc.encode(fr)
        ctx.check(len(payloads) == 1 and ts == 3000 * k, "one-payload-and-timestamp")
        d, rest = VpxPayloadDescriptor.parse(payloads[0])
        ctx.check(sx.eq(rest, data), "frame-bytes-verbatim")
        ids.append(d.picture_id)
        ctx.check(sx.And(enc.picture_id >= 0, enc.picture_id < (1 << 15)), "picture-id-state-stays-15-bit")
    ctx.reach("two-frames")
    ctx.check(sx.eq(ids[0], pid), "frame-carries-the-current-picture-id")
    ctx.check(sx.eq(ids[1], (pid + 1) % (1 << 15)), "next-frame-carries-the-next-picture-id-mod-2^15")
    ctx.observe("ids", ids)


def h_vp8_descriptor(ctx, mask):
    """Descriptor round trip for every field combination (I/L/T/K present or not)."""
    d = VpxPayloadDescriptor(
        partition_start=ctx.int("S", 0, 1),
        partition_id=ctx.int("PID", 0, 15),
        picture_id=ctx.int("pic", 0, (1 << 15) - 1) if mask & 1 else None,
        tl0picidx=ctx.int("tl0", 0, 255) if mask & 2 else None,
        tid=(ctx.int("tid", 0, 3), ctx.int("y", 0, 1)) if mask & 4 else None,
        keyidx=ctx.int("keyidx", 0, 31) if mask & 8 else None,
    )
    rest = ctx.bytes("rest", 2)
    raw = sx.to_bytes(d) + rest
    e, data = VpxPayloadDescriptor.parse(raw)
    ctx.reach("descriptor-parsed")
    ctx.check(sx.eq(data, rest), "payload-after-descriptor")
    ctx.check(sx.eq(e.partition_start, d.partition_start), "S")
    ctx.check(sx.eq(e.partition_id, d.partition_id), "PID")
    ctx.check(sx.deep_eq(e.picture_id, d.picture_id), "picture-id-roundtrip-15-bit")
    ctx.check(sx.deep_eq(e.tl0picidx, d.tl0picidx), "tl0picidx")
    ctx.check(sx.deep_eq(e.tid, d.tid), "tid")
    ctx.check(sx.deep_eq(e.keyidx, d.keyidx), "keyidx")
    ctx.check(sx.eq(sx.to_bytes(e), sx.to_bytes(d)), "descriptor-reserialises-identically")
    ctx.observe("len", len(raw))


BOUND = [2, 3, 1296, 1297, 1298, 1299, 1300, 1301, 1302, 2594, 2595, 2596, 2597, 2598, 2599, 2600, 3892, 3893, 3894, 3895, 3896, 59999, 60000]


def _h264_jobs(tier):
    jobs = []
    for s in BOUND:
        jobs.append({"sizes": [s]})
    small = [2, 3, 40, 645, 646, 647, 1295, 1296, 1297, 1298, 1299, 1300]
    for a in small:
        for b in (2, 650, 1296, 1301) if tier == "quick" else small + [1301, 2597]:
            jobs.append({"sizes": [a, b]})
    trip = [(2, 2, 2), (2, 1301, 2), (1301, 2, 1301), (433, 433, 431), (433, 432, 432), (430, 430, 430), (2, 3, 1292), (1300, 1300, 1300), (2600, 2, 3)]
    if tier == "thorough":
        trip += [(a, b, c) for a in (2, 500, 1298, 1301) for b in (2, 790, 1302) for c in (2, 3, 2599)]
        trip += [tuple([100] * n) for n in (8, 9, 10, 11, 13)]
    else:
        trip += [tuple([100] * n) for n in (9, 10)]
    for t in trip:
        jobs.append({"sizes": list(t)})
    return jobs


ENC = [
    "aiortc.codecs.h264:H264Encoder._packetize",
    "aiortc.codecs.h264:H264Encoder._packetize_fu_a",
    "aiortc.codecs.h264:H264Encoder._packetize_stap_a",
    "aiortc.codecs.h264:H264Encoder._split_bitstream",
    "aiortc.codecs.h264:H264PayloadDescriptor.parse",
    "aiortc.codecs.h264:h264_depayload",
    "aiortc.codecs.vpx:Vp8Encoder._packetize",
    "aiortc.codecs.vpx:VpxPayloadDescriptor.__bytes__",
    "aiortc.codecs.vpx:VpxPayloadDescriptor.parse",
    "aiortc.codecs.vpx:vp8_depayload",
    "aiortc.codecs:depayload",
]

HARNESSES = {
    "h264": Harness("h264", h_h264, _h264_jobs, style="RT (size sweep)", bounds="1..3 (and 8..13 small) NAL units; sizes from the boundary set {2,3,1296..1302,2594..2600,3892..3896,59999,60000} and neighbours; header byte (F, NRI, type 1..23) and the first/last two body bytes symbolic", encoded=ENC, outside=["NAL sizes as solver variables (ropes of DESIGN 2.2 not built): sizes are swept, not symbolic"], twin="packetized"),
    "h264-split": Harness("h264-split", h_split, lambda tier: [{"sizes": s, "four": f} for s in ([2], [3, 2], [5, 40, 2], [1301, 3]) for f in range(1 << len(s))], style="RT", bounds="1..3 NAL units, every mix of 3- and 4-byte start codes; NAL content free of start codes and not ending in zero (assumed)", encoded=ENC, twin="split"),
    "vp8": Harness("vp8", h_vp8, lambda tier: [{"size": s} for s in ([0, 1, 2, 1296, 1297, 1298, 1299, 2594, 2596, 60000] if tier == "quick" else [0, 1, 2, 3, 1295, 1296, 1297, 1298, 1299, 1300, 2593, 2594, 2595, 2596, 2597, 3891, 3894, 59999, 60000])], style="RT (size sweep)", bounds="buffer sizes from the boundary set; picture id symbolic over 15 bits; first/last two bytes symbolic", encoded=ENC, twin="packetized"),
    "vp8-stream": Harness("vp8-stream", h_vp8_stream, lambda tier: [{"path": "pack"}, {"path": "encode"}], style="STEP", bounds="encoder with ANY 15-bit picture id as pre-state, two successive 2-byte frames through pack() (pre-encoded packets) or encode() (libvpx context replaced by a stand-in that returns the frame bytes)", encoded=ENC + ["aiortc.codecs.vpx:Vp8Encoder.pack", "aiortc.codecs.vpx:Vp8Encoder.encode"], stubs=["av.Packet -> stand-in with bytes/pts/time_base", "libvpx codec context -> stand-in returning one package"], outside=["the VP8 encoder itself (libvpx)"], twin="two-frames", opts={"samples": 1}),
    "vp8-descriptor": Harness("vp8-descriptor", h_vp8_descriptor, lambda tier: [{"mask": m} for m in range(16)], style="RT", bounds="all 16 presence combinations of I/L/T/K with every field over its bit width", encoded=ENC, twin="descriptor-parsed"),
}
