"""C08 - SCTP packets round-trip exactly; corrupted packets are rejected by the checksum."""
from __future__ import annotations

import os

import aiortc.rtcsctptransport as sctp
from aiortc.rtcsctptransport import (
    AbortChunk,
    CookieAckChunk,
    CookieEchoChunk,
    DataChunk,
    ErrorChunk,
    ForwardTsnChunk,
    HeartbeatAckChunk,
    HeartbeatChunk,
    InitAckChunk,
    InitChunk,
    ReconfigChunk,
    SackChunk,
    ShutdownAckChunk,
    ShutdownChunk,
    ShutdownCompleteChunk,
    StreamAddOutgoingParam,
    StreamResetOutgoingParam,
    StreamResetResponseParam,
    parse_packet,
    serialize_packet,
)

from sx import api as sx
from sx.runner import Harness

PROPERTY = "C08"
MODULES = ["aiortc.rtcsctptransport"]
DEADLINE = {"quick": 300, "thorough": 2400}
U8, U16, U32 = 0xFF, 0xFFFF, 0xFFFFFFFF

PARAM_CHUNKS = {"abort": AbortChunk, "error": ErrorChunk, "heartbeat": HeartbeatChunk, "heartbeat_ack": HeartbeatAckChunk, "reconfig": ReconfigChunk}
EMPTY_CHUNKS = {"cookie_ack": CookieAckChunk, "shutdown_ack": ShutdownAckChunk, "shutdown_complete": ShutdownCompleteChunk}


class _Patch:
    """Temporarily replace module globals (both modes)."""

    def __init__(self, mod, **kw):
        self.mod, self.kw, self.old = mod, kw, {}

    def __enter__(self):
        for k, v in self.kw.items():
            self.old[k] = getattr(self.mod, k)
            setattr(self.mod, k, v)

    def __exit__(self, *a):
        for k, v in self.old.items():
            setattr(self.mod, k, v)


def _params(ctx, lens, tag="p"):
    return [(ctx.int("%s%d_type" % (tag, i), 0, U16), ctx.bytes("%s%d_val" % (tag, i), n)) for i, n in enumerate(lens)]


def _mk_chunk(ctx, kind, n=0, lens=()):
    flags = ctx.int("flags", 0, U8)
    if kind == "data":
        c = DataChunk(flags=flags)
        c.tsn = ctx.int("tsn", 0, U32)
        c.stream_id = ctx.int("stream_id", 0, U16)
        c.stream_seq = ctx.int("stream_seq", 0, U16)
        c.protocol = ctx.int("ppid", 0, U32)
        c.user_data = ctx.bytes("user_data", n)
        return c
    if kind == "data_long":
        # length sweep: n bytes of user data, symbolic sentinels at both ends, zeros in between
        c = DataChunk(flags=flags)
        c.tsn = ctx.int("tsn", 0, U32)
        c.stream_id = ctx.int("stream_id", 0, U16)
        c.stream_seq = ctx.int("stream_seq", 0, U16)
        c.protocol = ctx.int("ppid", 0, U32)
        k = min(4, n // 2)
        head = ctx.bytes("head", k)
        tail = ctx.bytes("tail", min(4, n - k))
        c.user_data = head + bytes(n - len(head) - len(tail)) + tail
        return c
    if kind in ("init", "init_ack"):
        c = (InitChunk if kind == "init" else InitAckChunk)(flags=flags)
        c.initiate_tag = ctx.int("initiate_tag", 0, U32)
        c.advertised_rwnd = ctx.int("rwnd", 0, U32)
        c.outbound_streams = ctx.int("os", 0, U16)
        c.inbound_streams = ctx.int("is", 0, U16)
        c.initial_tsn = ctx.int("initial_tsn", 0, U32)
        c.params = _params(ctx, lens)
        return c
    if kind == "sack":
        c = SackChunk(flags=flags)
        c.cumulative_tsn = ctx.int("cum", 0, U32)
        c.advertised_rwnd = ctx.int("rwnd", 0, U32)
        c.gaps = [(ctx.int("g%da" % i, 0, U16), ctx.int("g%db" % i, 0, U16)) for i in range(n)]
        c.duplicates = [ctx.int("dup%d" % i, 0, U32) for i in range(lens[0] if lens else 0)]
        return c
    if kind == "forward_tsn":
        c = ForwardTsnChunk(flags=flags)
        c.cumulative_tsn = ctx.int("cum", 0, U32)
        c.streams = [(ctx.int("s%d_id" % i, 0, U16), ctx.int("s%d_seq" % i, 0, U16)) for i in range(n)]
        return c
    if kind == "shutdown":
        c = ShutdownChunk(flags=flags)
        c.cumulative_tsn = ctx.int("cum", 0, U32)
        return c
    if kind == "cookie_echo":
        c = CookieEchoChunk(flags=flags)
        c.body = ctx.bytes("cookie", n)
        return c
    if kind in PARAM_CHUNKS:
        c = PARAM_CHUNKS[kind](flags=flags)
        c.params = _params(ctx, lens)
        return c
    if kind in EMPTY_CHUNKS:
        return EMPTY_CHUNKS[kind](flags=flags)
    raise ValueError(kind)


def _fields(c):
    if isinstance(c, DataChunk):
        return [c.flags, c.tsn, c.stream_id, c.stream_seq, c.protocol, c.user_data]
    if isinstance(c, (InitChunk, InitAckChunk)):
        return [c.flags, c.initiate_tag, c.advertised_rwnd, c.outbound_streams, c.inbound_streams, c.initial_tsn, [list(p) for p in c.params]]
    if isinstance(c, SackChunk):
        return [c.flags, c.cumulative_tsn, c.advertised_rwnd, [list(g) for g in c.gaps], list(c.duplicates)]
    if isinstance(c, ForwardTsnChunk):
        return [c.flags, c.cumulative_tsn, [list(s) for s in c.streams]]
    if isinstance(c, ShutdownChunk):
        return [c.flags, c.cumulative_tsn]
    if isinstance(c, sctp.BaseParamsChunk):
        return [c.flags, [list(p) for p in c.params]]
    return [c.flags, c.body]


class _CountingCrc:
    """Concrete mode: the real CRC32c, with the same call log as the symbolic stand-in."""

    def __init__(self):
        self.calls = []

    def __call__(self, data):
        import google_crc32c

        r = google_crc32c.value(bytes(data))
        self.calls.append((bytes(data), r))
        return r


def h_roundtrip(ctx, kind, n=0, lens=()):
    if sx.active():
        from sx.shims import CrcUF

        crc = CrcUF()
    else:
        crc = _CountingCrc()
    sport, dport, tag = ctx.int("sport", 0, U16), ctx.int("dport", 0, U16), ctx.int("vtag", 0, U32)
    chunk = _mk_chunk(ctx, kind, n, tuple(lens))
    with _Patch(sctp, **({"crc32c": crc} if crc else {})):
        data = serialize_packet(sport, dport, tag, chunk)
        ctx.reach("serialized")
        ctx.check(len(data) % 4 == 0, "packet-length-multiple-of-4")
        sp, dp, vt, chunks = parse_packet(data)
        ctx.reach("parsed")
        ctx.check(sx.And(sx.eq(sp, sport), sx.eq(dp, dport), sx.eq(vt, tag)), "common-header")
        ctx.check(len(chunks) == 1, "one-chunk")
        c2 = chunks[0]
        ctx.check(type(c2) is type(chunk), "same-class")
        ctx.check(sx.deep_eq(_fields(c2), _fields(chunk)), "fields-equal-" + kind)
        data2 = serialize_packet(sport, dport, tag, c2)
        ctx.check(sx.eq(data2, data), "reserialize-identical")
    if crc is not None:
        # coverage lemma: serialiser and parser feed the same string to crc32c and it contains every
        # packet byte except offsets 8..11, each at its own offset
        ctx.check(len(crc.calls) == 3, "crc-called-once-per-operation")
        want = data[0:8] + b"\x00\x00\x00\x00" + data[12:]
        for d, _ in crc.calls[:2]:
            ctx.check(sx.eq(d, want), "crc-covers-every-byte-but-the-field")
    ctx.observe("fields", _fields(c2))
    ctx.observe("len", len(data))


class _Prefixed:
    """ctx facade whose inputs get a name prefix (a second, independent chunk in the same path)."""

    def __init__(self, ctx, prefix):
        self._ctx, self._prefix = ctx, prefix

    def __getattr__(self, name):
        f = getattr(self._ctx, name)
        if name in ("int", "bool", "bytes", "str", "choice"):
            return lambda nm, *a, **kw: f(self._prefix + nm, *a, **kw)
        return f


def h_roundtrip_twice(ctx, kind, n=0, lens=()):
    """Two independent chunks of one class serialised and parsed one after the other in the same
    process: the second round trip must not see anything of the first (no state shared between
    chunk objects)."""
    crc = CrcUF_or_counting()
    with _Patch(sctp, **({"crc32c": crc} if crc else {})):
        for tag, c in (("", ctx), ("b_", _Prefixed(ctx, "b_"))):
            sport, dport, vtag = c.int("sport", 0, U16), c.int("dport", 0, U16), c.int("vtag", 0, U32)
            chunk = _mk_chunk(c, kind, n, tuple(lens))
            data = serialize_packet(sport, dport, vtag, chunk)
            sp, dp, vt, chunks = parse_packet(data)
            ctx.check(len(chunks) == 1 and type(chunks[0]) is type(chunk), "one-chunk-same-class")
            c2 = chunks[0]
            ctx.check(sx.deep_eq(_fields(c2), _fields(chunk)), "fields-equal-" + kind + ("-second-chunk" if tag else ""))
            ctx.check(sx.eq(serialize_packet(sport, dport, vtag, c2), data), "reserialize-identical" + ("-second-chunk" if tag else ""))
    ctx.reach("twice-done")
    ctx.observe("ok", True)


def CrcUF_or_counting():
    if sx.active():
        from sx.shims import CrcUF

        return CrcUF()
    return _CountingCrc()


def h_reconfig_params(ctx, kind, n):
    if kind == "reset_out":
        p = StreamResetOutgoingParam(
            request_sequence=ctx.int("req", 0, U32),
            response_sequence=ctx.int("resp", 0, U32),
            last_tsn=ctx.int("last", 0, U32),
            streams=[ctx.int("st%d" % i, 0, U16) for i in range(n)],
        )
        ptype = 13
    elif kind == "add_out":
        p = StreamAddOutgoingParam(request_sequence=ctx.int("req", 0, U32), new_streams=ctx.int("new", 0, U16))
        ptype = 17
    else:
        p = StreamResetResponseParam(response_sequence=ctx.int("resp", 0, U32), result=ctx.int("result", 0, U32))
        ptype = 16
    raw = sx.to_bytes(p)
    q = type(p).parse(raw)
    ctx.check(sx.deep_eq(p, q), "param-roundtrip-" + kind)
    ctx.check(sx.eq(sx.to_bytes(q), raw), "param-reserialize-" + kind)
    # inside a RE-CONFIG chunk, through the packet layer
    crc = None
    if sx.active():
        from sx.shims import CrcUF

        crc = CrcUF()
    chunk = ReconfigChunk()
    chunk.params.append((ptype, raw))
    with _Patch(sctp, **({"crc32c": crc} if crc else {})):
        _, _, _, chunks = parse_packet(serialize_packet(5000, 5000, ctx.int("vtag", 0, U32), chunk))
    ctx.check(len(chunks) == 1 and isinstance(chunks[0], ReconfigChunk), "reconfig-chunk")
    ctx.check(len(chunks[0].params) == 1, "reconfig-one-param")
    cls = sctp.RECONFIG_PARAM_TYPES.get(chunks[0].params[0][0])
    ctx.check(cls is type(p), "reconfig-param-class")
    ctx.check(sx.deep_eq(cls.parse(chunks[0].params[0][1]), p), "reconfig-param-through-packet")
    ctx.observe("raw", raw)


# ------------------------------------------------------------------------------ burst clause
def _base_packet(kind, n):
    """A concrete packet produced by the real serialiser with the real checksum."""
    if kind == "data":
        c = DataChunk(flags=3)
        c.tsn, c.stream_id, c.stream_seq, c.protocol = 1000, 1, 5, 53
        c.user_data = bytes((7 * i + 1) & 0xFF for i in range(n))
    elif kind == "sack":
        c = SackChunk()
        c.cumulative_tsn, c.advertised_rwnd = 123456, 131072
        c.gaps = [(2 + i, 3 + i) for i in range(n)]
    else:
        c = HeartbeatChunk()
        c.params = [(1, bytes(range(n)))]
    return serialize_packet(5000, 5000, 0x01020304, c)


def _bitpos(p):
    """wire bit position (CRC order: LSB of each byte first) -> (byte, bit)."""
    return p // 8, p % 8


def h_burst(ctx, kind, n, offset, mode="outside"):
    """A single burst of <= 32 bits starting at bit `offset` (bit order of the CRC: byte by byte,
    least significant bit first) on an accepted packet must fail the checksum test of the real
    parse_packet, evaluated under the bit-precise CRC32c model."""
    from sx.crc import crc_model

    base = _base_packet(kind, n)
    nbits = 8 * len(base)
    width = min(32, nbits - offset)
    e = ctx.int("pattern", 1, (1 << width) - 1)
    ctx.assume(e & 1 == 1, "burst starts exactly at `offset` (all offsets are enumerated)")
    # apply the error
    flip = [0] * len(base)
    items = list(base)
    touched_field = False
    touched_other = False
    in_field = []
    out_field = []
    for i in range(width):
        by, bi = _bitpos(offset + i)
        bitv = (e >> i) & 1
        flip[by] = flip[by] | (bitv << bi)
        (in_field if 8 <= by < 12 else out_field).append(bitv)
    corrupted = sx.mkbytes([items[j] ^ flip[j] for j in range(len(base))])
    tf = sx.Or(*[b == 1 for b in in_field]) if in_field else False
    to = sx.Or(*[b == 1 for b in out_field]) if out_field else False
    straddles = sx.And(tf, to)
    ctx.define("straddles", straddles)
    ctx.define("touches_field", tf)
    if mode == "outside":
        # pass 2 of DESIGN 5.4: everything outside the signature of the known finding
        ctx.assume(sx.Not(straddles), "error pattern does not straddle the checksum field boundary (known finding KF-C08-straddling-burst is re-confirmed by the 'confirm' jobs)")
    else:
        ctx.assume(straddles)
    with _Patch(sctp, **({"crc32c": crc_model} if sx.active() else {})):
        # the unmodified packet is accepted
        parse_packet(base)
        ctx.reach("base-accepted")
        try:
            parse_packet(corrupted)
            rejected = False
        except ValueError as exc:
            rejected = "checksum" in str(exc)
        except Exception:  # noqa: BLE001 - passed the checksum and failed later (C05 territory)
            rejected = False
    ctx.check(rejected, "burst-rejected-by-checksum")
    ctx.observe("rejected", rejected)


def h_crc_model(ctx, seed):
    """Validate the CRC model against the real google_crc32c (concrete; no solver involved)."""
    import random

    import google_crc32c

    from sx.crc import crc32c_ref, crc_model
    from sx.bytes_ import SymBytes

    rnd = random.Random(seed)
    vectors = [b"", b"\x00", b"123456789", bytes(64)]
    for _ in range(60):
        vectors.append(bytes(rnd.getrandbits(8) for _ in range(rnd.choice([1, 4, 12, 16, 17, 33, 64, 100, 257, 1212]))))
    tests = os.path.join(os.environ.get("SX_SRC", "/repo/src"), "..", "tests")
    if os.path.isdir(tests):
        for fn in sorted(os.listdir(tests)):
            if fn.startswith("sctp_") and fn.endswith(".bin"):
                vectors.append(open(os.path.join(tests, fn), "rb").read())
    n = 0
    for v in vectors:
        real = google_crc32c.value(v)
        ctx.check(crc32c_ref(v) == real, "crc-reference-matches-library")
        if v and sx.active() and len(v) <= 64:
            # push the vector through the symbolic code path: one symbolic byte pinned by an assumption
            k = len(v) // 2
            b = ctx.int("pin#", 0, 255)
            ctx.assume(b == v[k])
            items = list(v)
            items[k] = b
            ctx.check(crc_model(SymBytes(items)) == real, "crc-symbolic-model-matches-library")
        n += 1
    ctx.check(crc32c_ref(b"123456789") == 0xE3069283, "crc-check-value")
    ctx.observe("vectors", n)


# ------------------------------------------------------------------------------ jobs
def _rt_jobs(tier):
    jobs = []
    for n in range(0, 9):
        jobs.append({"kind": "data", "n": n})
    sweep = list(range(1, 20)) + [1196, 1197, 1198, 1199, 1200] + list(range(37, 1200, 97))
    if tier == "thorough":
        sweep = list(range(1, 1201))
    for n in sweep:
        jobs.append({"kind": "data_long", "n": n})
    plens = [(), (0,), (1,), (2,), (3,), (4,), (5,), (6,), (7,), (0, 0), (1, 2), (3, 4), (5, 6, 7), (7, 0, 1), (4, 4, 4), (2, 7, 3)]
    if tier == "quick":
        plens = [(), (0,), (1,), (3,), (4,), (7,), (1, 2), (5, 6, 7), (7, 0, 1)]
    for kind in ("init", "init_ack", "abort", "error", "heartbeat", "heartbeat_ack", "reconfig"):
        for lens in plens:
            jobs.append({"kind": kind, "lens": list(lens)})
    for g in range(0, 4):
        for d in range(0, 4):
            if tier == "quick" and (g + d) % 2:
                continue
            jobs.append({"kind": "sack", "n": g, "lens": [d]})
    for n in range(0, 4):
        jobs.append({"kind": "forward_tsn", "n": n})
    jobs.append({"kind": "shutdown"})
    for n in (0, 1, 3, 4, 24):
        jobs.append({"kind": "cookie_echo", "n": n})
    for kind in EMPTY_CHUNKS:
        jobs.append({"kind": kind})
    return jobs


def _burst_jobs(tier):
    jobs = []
    shapes = [("data", 0), ("data", 5), ("sack", 1)] if tier == "quick" else [("data", 0), ("data", 1), ("data", 5), ("data", 12), ("data", 33), ("sack", 0), ("sack", 2), ("heartbeat", 9)]
    for kind, n in shapes:
        nbits = 8 * len(_base_packet(kind, n))
        step = 1
        for off in range(0, nbits, step):
            jobs.append({"kind": kind, "n": n, "offset": off})
    # re-confirmation of the known finding at geometries where the sat query is cheap
    for off in (62, 63, 65):
        jobs.append({"kind": "data", "n": 5, "offset": off, "mode": "confirm"})
    if tier == "thorough":
        for kind, n in (("data", 100), ("data", 240), ("data", 1184)):
            nbits = 8 * len(_base_packet(kind, n))
            offs = list(range(0, 200)) + list(range(200, nbits - 64, 61)) + list(range(nbits - 64, nbits))
            for off in offs:
                jobs.append({"kind": kind, "n": n, "offset": off})
    return jobs


ENC = [
    "aiortc.rtcsctptransport:parse_packet",
    "aiortc.rtcsctptransport:serialize_packet",
    "aiortc.rtcsctptransport:encode_params",
    "aiortc.rtcsctptransport:decode_params",
    "aiortc.rtcsctptransport:padl",
    "aiortc.rtcsctptransport:Chunk.__bytes__",
    "aiortc.rtcsctptransport:DataChunk.__init__",
    "aiortc.rtcsctptransport:DataChunk.__bytes__",
    "aiortc.rtcsctptransport:BaseInitChunk.__init__",
    "aiortc.rtcsctptransport:BaseInitChunk.body",
    "aiortc.rtcsctptransport:SackChunk.__init__",
    "aiortc.rtcsctptransport:SackChunk.__bytes__",
    "aiortc.rtcsctptransport:ForwardTsnChunk.__init__",
    "aiortc.rtcsctptransport:ForwardTsnChunk.body",
    "aiortc.rtcsctptransport:ShutdownChunk.__init__",
    "aiortc.rtcsctptransport:BaseParamsChunk.__init__",
    "aiortc.rtcsctptransport:StreamResetOutgoingParam.parse",
    "aiortc.rtcsctptransport:StreamAddOutgoingParam.parse",
    "aiortc.rtcsctptransport:StreamResetResponseParam.parse",
]

HARNESSES = {
    "roundtrip": Harness(
        "roundtrip",
        h_roundtrip,
        _rt_jobs,
        style="RT",
        bounds="every chunk class; all fixed fields and flags over wire range; DATA user data 0..8 fully symbolic bytes plus length sweep (quick: 36 lengths incl. all residues mod 4 and 1196..1200; thorough: every length 1..1200) with symbolic sentinel bytes at both ends; <=3 parameters with value lengths 0..7; SACK <=3 gaps + <=3 duplicates; FORWARD-TSN <=3 streams; cookie 0..24 B",
        encoded=ENC,
        stubs=["crc32c -> uninterpreted but deterministic function (Ackermann expansion)"],
        twin="parsed",
    ),
    "roundtrip-twice": Harness(
        "roundtrip-twice",
        h_roundtrip_twice,
        lambda tier: [{"kind": "forward_tsn", "n": 2}, {"kind": "sack", "n": 2, "lens": [2]}, {"kind": "init", "lens": [1, 2]}, {"kind": "reconfig", "lens": [4]}, {"kind": "data", "n": 2}, {"kind": "error", "lens": [3]}],
        style="RT (two instances in one process)",
        bounds="two independent symbolic chunks of the same class (FORWARD-TSN with 2 streams, SACK with 2 gaps + 2 duplicates, INIT / RE-CONFIG / ERROR with parameters, DATA) round-tripped one after the other",
        encoded=ENC,
        stubs=["crc32c -> uninterpreted but deterministic function (Ackermann expansion)"],
        twin="twice-done",
    ),
    "reconfig-params": Harness(
        "reconfig-params",
        h_reconfig_params,
        lambda tier: [{"kind": "reset_out", "n": n} for n in range(0, 5)] + [{"kind": "add_out", "n": 0}, {"kind": "response", "n": 0}],
        style="RT",
        bounds="outgoing reset <=4 streams; all fields over wire range",
        encoded=ENC,
        stubs=["crc32c -> uninterpreted but deterministic function"],
        twin="reconfig-param-through-packet",
    ),
    "burst": Harness(
        "burst",
        h_burst,
        _burst_jobs,
        style="LEMMA+RT",
        bounds="real serialize_packet outputs of 28..64 B (quick: 3 shapes; thorough: 8 shapes + sampled offsets on 128/268/1212 B); every burst start offset; all 2^31 patterns of <=32 bits starting there; bit order = CRC order (per byte, LSB first); by linearity of the validated CRC model the verdict does not depend on the packet content",
        encoded=["aiortc.rtcsctptransport:parse_packet", "aiortc.rtcsctptransport:serialize_packet"],
        stubs=["crc32c -> bit-precise bit-serial shift-register model of CRC32c (sx/crc.py), validated against google_crc32c in harness crc-model"],
        twin="base-accepted",
        opts={"query_timeout_ms": 120000},
    ),
    "crc-model": Harness(
        "crc-model", h_crc_model, lambda tier: [{"seed": s} for s in range(2 if tier == "quick" else 8)], style="LEMMA (model validation)", bounds="random vectors up to 1212 B and every SCTP fixture of the repository", encoded=[], twin="crc-check-value"
    ),
}
