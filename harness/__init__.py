"""Harness registry: property id -> harness module."""

REGISTRY = {
    "C01": "harness.c01_reliable",
    "C02": "harness.c02_drain",
    "C03": "harness.c03_negotiation",
    "C04": "harness.c04_dtls",
    "C05": "harness.c05_nocrash",
    "C06": "harness.c06_partial",
    "C07": "harness.c07_rtp",
    "C08": "harness.c08_sctp",
    "C09": "harness.c09_sdp",
    "C10": "harness.c10_jitter",
    "C11": "harness.c11_nackrtx",
    "C12": "harness.c12_router",
    "C13": "harness.c13_channel",
    "C14": "harness.c14_jsep",
    "C15": "harness.c15_rate",
    "C16": "harness.c16_codecs",
    "C17": "harness.c17_serial",
    "C18": "harness.c18_rr",
}
