"""Harness registry: property id -> harness module."""

REGISTRY = {
    "C10": "harness.c10_jitter",
    "C17": "harness.c17_serial",
}
