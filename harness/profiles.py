"""Which names are injected into which aiortc module for which property (DESIGN 2.1).

Kept apart from the harness modules because the import hook must be installed *before* aiortc
(and therefore before any harness module) is imported.
"""
from __future__ import annotations


def _std():
    from sx import shims
    from sx.loader import Profile

    struct_names = {
        "pack": shims.sx_pack,
        "unpack": shims.sx_unpack,
        "unpack_from": shims.sx_unpack_from,
        "struct": shims.struct_shim,
    }
    basic = dict(struct_names)
    basic.update(
        {
            "bytes": shims.sx_bytes,
            "int": shims.sx_int,
            "range": shims.sx_range,
            "min": shims.sx_min,
            "max": shims.sx_max,
        }
    )
    return Profile, struct_names, basic


def for_property(prop: str):
    from sx import shims
    from sx.containers import sx_dict, sx_set

    Profile, struct_names, basic = _std()
    mods = {}
    # modules that handle wire data get the struct/bytes/int shims and the join rewrite
    rtp = dict(basic)
    rtp["os"] = shims.os_shim
    mods["aiortc.rtp"] = Profile(rtp, rewrite={"join"})
    mods["aiortc.utils"] = Profile({"unpack": shims.sx_unpack}, rewrite=())
    mods["aiortc.jitterbuffer"] = Profile({"range": shims.sx_range}, rewrite={"join"})
    sctp = dict(basic)
    sctp.update({"set": sx_set, "dict": sx_dict, "str": shims.sx_str})
    mods["aiortc.rtcdatachannel"] = Profile({"str": shims.sx_str, "bytes": shims.sx_bytes}, rewrite=())
    mods["aiortc.rtcsctptransport"] = Profile(sctp, rewrite={"join", "containers"})
    recv = {
        "int": shims.sx_int,
        "bytes": shims.sx_bytes,
        "range": shims.sx_range,
        "min": shims.sx_min,
        "max": shims.sx_max,
        "set": sx_set,
        "dict": sx_dict,
    }
    mods["aiortc.rtcrtpreceiver"] = Profile(recv, rewrite={"join", "containers"})
    mods["aiortc.codecs.h264"] = Profile(basic, rewrite={"join"})
    mods["aiortc.codecs.vpx"] = Profile(basic, rewrite={"join"})
    snd = {"int": shims.sx_int, "bytes": shims.sx_bytes, "range": shims.sx_range, "dict": sx_dict, "set": sx_set}
    mods["aiortc.rtcrtpsender"] = Profile(snd, rewrite={"join", "containers"})
    ratep = {"int": shims.sx_int, "min": shims.sx_min, "max": shims.sx_max, "dict": sx_dict, "range": shims.sx_range}
    mods["aiortc.rate"] = Profile(ratep, rewrite={"containers"})
    if prop == "C09":
        from sx.regex import re_shim

        sdpn = {"str": shims.sx_str, "int": shims.sx_int, "re": re_shim, "dict": sx_dict}
        mods["aiortc.sdp"] = Profile(sdpn, rewrite={"join", "fstr", "containers"})
        mods["aiortc.rtcrtpparameters"] = Profile({"str": shims.sx_str}, rewrite={"fstr", "join"})
    if prop == "C03":
        pcp = {"int": shims.sx_int, "dict": sx_dict, "set": sx_set}
        mods["aiortc.rtcpeerconnection"] = Profile(pcp, rewrite={"containers"})
    if prop == "C14":
        # real peer connections on a real event loop: all data is concrete, only the call sequence
        # is solver-chosen; no module of the connection stack is instrumented
        for k in ("aiortc.rtcsctptransport", "aiortc.rtcdtlstransport", "aiortc.rtcrtpreceiver", "aiortc.rtcrtpsender", "aiortc.rtp", "aiortc.rate", "aiortc.rtcdatachannel", "aiortc.jitterbuffer", "aiortc.utils", "aiortc.codecs.h264", "aiortc.codecs.vpx"):
            mods.pop(k, None)
        return {"modules": mods, "default": None}
    dtls = {"set": sx_set, "dict": sx_dict, "bytes": shims.sx_bytes, "int": shims.sx_int}
    mods["aiortc.rtcdtlstransport"] = Profile(dtls, rewrite={"join", "containers"})
    return {"modules": mods, "default": None}
