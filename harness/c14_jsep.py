"""C14 - signalling follows the JSEP state machine; illegal calls have no side effects.

BMC over call sequences on two *real* RTCPeerConnection objects driven on a real (private) event
loop.  The solver chooses, at every step, the peer, the API call and the defect injected into a
remote description; all data is concrete.  After every call the observable state is compared
with a 12-row JSEP table.
"""
from __future__ import annotations

import asyncio
import re

from aiortc import RTCPeerConnection, RTCSessionDescription
from aiortc.exceptions import InternalError, InvalidStateError

from sx import api as sx
from sx.runner import Harness

PROPERTY = "C14"
MODULES = ["aiortc.rtcpeerconnection", "aiortc.rtcsessiondescription"]
DEADLINE = {"quick": 400, "thorough": 2400}

DEFECTS = ["no-ufrag", "no-pwd", "no-rtcp-mux", "actpass-in-answer", "actpass-in-datachannel-answer", "no-setup", "mismatched-mid", "extra-media", "no-direction", "bad-type"]


def _mutate(sdp_text, kind):
    if kind == "no-ufrag":
        return re.sub(r"a=ice-ufrag:[^\r\n]*\r\n", "", sdp_text)
    if kind == "no-pwd":
        return re.sub(r"a=ice-pwd:[^\r\n]*\r\n", "", sdp_text)
    if kind == "no-rtcp-mux":
        return sdp_text.replace("a=rtcp-mux\r\n", "")
    if kind == "actpass-in-answer":
        return re.sub(r"a=setup:(active|passive)", "a=setup:actpass", sdp_text)
    if kind == "actpass-in-datachannel-answer":
        i = sdp_text.find("m=application")
        if i < 0:
            return sdp_text
        return sdp_text[:i] + re.sub(r"a=setup:(active|passive)", "a=setup:actpass", sdp_text[i:])
    if kind == "no-setup":
        return re.sub(r"a=setup:[^\r\n]*\r\n", "", sdp_text)
    if kind == "no-direction":
        # legal: a section without a direction attribute means sendrecv (RFC 3264) - not a defect
        return re.sub(r"a=(sendrecv|sendonly|recvonly|inactive)\r\n", "", sdp_text)
    if kind == "mismatched-mid":
        return re.sub(r"a=mid:(\S+)", lambda m: "a=mid:x" + m.group(1), sdp_text, count=1)
    if kind == "extra-media":
        i = sdp_text.find("m=")
        return sdp_text + sdp_text[i:] if i >= 0 else sdp_text
    return sdp_text


def _snapshot(p):
    ld, rd = p.localDescription, p.remoteDescription
    return (p.signalingState, None if ld is None else (ld.type, ld.sdp), None if rd is None else (rd.type, rd.sdp))


def _expected_defect_effect(kind, desc_type, has_audio):
    """Does this mutation make the description structurally defective for the validator?"""
    if kind in ("no-ufrag", "no-pwd"):
        return True
    if kind == "no-rtcp-mux":
        return has_audio
    if kind in ("actpass-in-answer", "actpass-in-datachannel-answer", "no-setup"):
        return desc_type == "answer"
    if kind in ("mismatched-mid", "extra-media"):
        return desc_type == "answer"
    return False


def h_jsep(ctx, depth, media, pre="none"):
    loop = asyncio.new_event_loop()
    loop.set_exception_handler(lambda *_: None)
    asyncio.set_event_loop(loop)
    run = loop.run_until_complete
    pcs = {"a": RTCPeerConnection(), "b": RTCPeerConnection()}
    try:
        if media in ("data", "both"):
            pcs["a"].createDataChannel("chat")
        if media in ("audio", "both"):
            pcs["a"].addTransceiver("audio")
        has_audio = media in ("audio", "both")
        made = {"a": {}, "b": {}}  # descriptions created by each peer: 'offer' / 'answer'
        model = {"a": "stable", "b": "stable"}
        pending_offer_from = {"a": None, "b": None}  # ghost: text of the offer each peer is answering / awaiting an answer for
        log = []
        closing = []
        pending = {"a": [], "b": []}  # setLocalDescription calls started but not yet awaited
        if pre in ("round", "round+swapped-offer"):
            # scripted prefix: one completed offer/answer round a -> b; exploration starts from there
            # (the descriptions of that round stay available as stale arguments)
            a, b = pcs["a"], pcs["b"]
            made["a"]["offer"] = run(a.createOffer())
            run(a.setLocalDescription(made["a"]["offer"]))
            run(b.setRemoteDescription(made["a"]["offer"]))
            made["b"]["answer"] = run(b.createAnswer())
            run(b.setLocalDescription(made["b"]["answer"]))
            run(a.setRemoteDescription(made["b"]["answer"]))
            ctx.check(a.signalingState == "stable" and b.signalingState == "stable", "round-ends-stable")
            if pre == "round+swapped-offer":
                # ... then the former answerer offers and the former offerer has answered; the
                # exploration starts with b still to apply that answer
                run(b.setLocalDescription(None))
                made["b"]["offer"] = b.localDescription
                run(a.setRemoteDescription(b.localDescription))
                run(a.setLocalDescription(None))
                made["a"]["answer"] = a.localDescription
                model["b"] = "have-local-offer"
        for step in range(depth):
            who = ctx.choice("who%d" % step, ["a", "b"])
            other = "b" if who == "a" else "a"
            p = pcs[who]
            calls = ["createOffer", "createAnswer", "setLocal-implicit", "close", "close-begin", "setLocal-begin"]
            if "offer" in made[who]:
                calls.append("setLocal-offer")
            if "answer" in made[who]:
                calls.append("setLocal-answer")
            if "offer" in made[other]:
                calls += ["setRemote-offer", "setRemote-offer-defective", "setRemote-offer-begin"]
            if "answer" in made[other]:
                calls += ["setRemote-answer", "setRemote-answer-defective"]
            call = ctx.choice("call%d" % step, calls)
            state = model[who]
            pre = _snapshot(p)
            pending[who] = [t for t in pending[who] if not t.done()]
            relaxed = bool(pending[who])  # an earlier call on this peer is still in progress
            if any(getattr(t, "_is_remote", False) for t in pending[who]) and call not in ("close", "close-begin"):
                # aiortc has no operations chain: what a second set*/create* call does while a
                # setRemoteDescription is still in progress is not covered by the property; only
                # close() racing with it is ("closed is absorbing")
                raise sx.PathAbort()
            if not relaxed:
                ctx.check(pre[0] == state, "signalingState-follows-the-jsep-table")
            begun = None
            exc = None
            want_exc = None
            nxt = state
            defect = None
            try:
                if call == "createOffer":
                    # W3C createOffer: InvalidStateError unless stable or have-local-offer
                    want_exc = None if state in ("stable", "have-local-offer") else InvalidStateError
                    made[who]["offer"] = run(p.createOffer())
                elif call == "createAnswer":
                    want_exc = None if state == "have-remote-offer" else InvalidStateError
                    made[who]["answer"] = run(p.createAnswer())
                elif call in ("setLocal-offer", "setLocal-answer", "setLocal-implicit", "setLocal-begin"):
                    if call in ("setLocal-implicit", "setLocal-begin"):
                        d = None
                        typ = "answer" if state == "have-remote-offer" else "offer"
                    else:
                        typ = call.split("-")[1]
                        d = made[who][typ]
                    if state == "closed":
                        want_exc = InvalidStateError
                    elif typ == "offer":
                        want_exc = None if state in ("stable", "have-local-offer") else InvalidStateError
                        nxt = "have-local-offer"
                    else:
                        want_exc = None if state == "have-remote-offer" else InvalidStateError
                        nxt = "stable"
                    if call == "setLocal-begin" and want_exc is None:
                        # started, not awaited: it is suspended (ICE gathering) while the next calls are
                        # made; they are judged against the state this call leads to, which is what
                        # both an early state update and a W3C operations chain amount to
                        begun = loop.create_task(p.setLocalDescription(None))
                        run(asyncio.sleep(0))
                        if begun.done():
                            begun.result()  # completed (or failed) at once: like an awaited call
                            begun = None
                        else:
                            pending[who].append(begun)
                            model[who] = nxt
                            log.append((who, call, None, "pending"))
                            continue
                    else:
                        run(p.setLocalDescription(d))
                    ld = p.localDescription
                    ctx.check(ld is not None and ld.type == typ, "localDescription-is-the-description-just-set", "%s in %s -> %r" % (call, state, None if ld is None else ld.type))
                    if d is None:
                        made[who][typ] = ld
                elif call.startswith("setRemote"):
                    typ = call.split("-")[1]
                    d = made[other][typ]
                    text = d.sdp
                    legal_state = state in (("stable", "have-remote-offer") if typ == "offer" else ("have-local-offer",))
                    want_exc = None if legal_state else InvalidStateError
                    nxt = "have-remote-offer" if typ == "offer" else "stable"
                    if call.endswith("defective"):
                        defect = ctx.choice("defect%d" % step, DEFECTS)
                        if defect == "bad-type":
                            for bad in ("bogus", "", "off", "answ", "roll", "Offer", "offeranswer", " answer"):
                                try:
                                    RTCSessionDescription(sdp=text, type=bad)
                                    ctx.fail("bogus-description-type-accepted", repr(bad))
                                except ValueError:
                                    pass
                            log.append((who, call, defect, "ValueError"))
                            continue
                        if defect in ("mismatched-mid", "extra-media", "no-setup") and typ != "answer":
                            # these only make an *answer* defective (it must mirror the offer)
                            log.append((who, call, defect, "n/a"))
                            continue
                        mutated = _mutate(text, defect)
                        if mutated == text:
                            log.append((who, call, defect, "n/a"))  # nothing to remove (e.g. no media)
                            continue
                        text = mutated
                        if legal_state and _expected_defect_effect(defect, typ, has_audio):
                            want_exc = ValueError
                    if call.endswith("-begin") and want_exc is None:
                        # started, not awaited (see setLocal-begin)
                        begun = loop.create_task(p.setRemoteDescription(RTCSessionDescription(sdp=text, type=typ)))
                        begun._is_remote = True
                        run(asyncio.sleep(0))
                        if begun.done():
                            begun.result()
                            begun = None
                        else:
                            pending[who].append(begun)
                            model[who] = nxt
                            log.append((who, call, None, "pending"))
                            continue
                    else:
                        run(p.setRemoteDescription(RTCSessionDescription(sdp=text, type=typ)))
                    rd = p.remoteDescription
                    ctx.check(rd is not None and rd.type == typ and rd.sdp.count("\nm=") == text.count("\nm="), "remoteDescription-is-the-description-just-set", "%s in %s -> %r" % (call, state, None if rd is None else rd.type))
                elif call == "close-begin":
                    # close() started but not awaited: it is suspended at its first await while the
                    # following calls are made; the connection must count as closed from here on
                    nxt = "closed"
                    closing.append(loop.create_task(p.close()))
                    run(asyncio.sleep(0))
                else:
                    nxt = "closed"
                    run(p.close())
            except (InvalidStateError, ValueError, InternalError) as e:
                exc = e
            post = _snapshot(p)
            ctx.reach("call-made")
            # ---- verdict of the call
            if want_exc is InvalidStateError:
                ctx.check(isinstance(exc, InvalidStateError), "illegal-call-raises-InvalidStateError", "%s(%s) in %s -> %r" % (call, defect, state, exc))
            elif want_exc is ValueError:
                ctx.check(isinstance(exc, ValueError), "defective-description-raises-ValueError", "%s(%s) in %s -> %r" % (call, defect, state, exc))
            elif exc is not None:
                # a legal call may still be refused for its argument: a stale description whose media
                # sections do not match (ValueError), or an offer without any media (InternalError)
                stale_ok = isinstance(exc, ValueError) and (call.startswith("setRemote") or call in ("setLocal-answer", "setLocal-offer"))
                empty_ok = isinstance(exc, InternalError) and call in ("createOffer", "setLocal-implicit")
                ctx.check(stale_ok or empty_ok, "legal-call-rejected", "%s(%s) in %s: %r" % (call, defect, state, exc))
            if exc is not None:
                # no side effects: signalingState and both descriptions unchanged
                if not relaxed:
                    ctx.check(post == pre, "failed-call-leaves-state-and-descriptions-unchanged", "%s(%s) in %s" % (call, defect, state))
            else:
                if call in ("createOffer", "createAnswer"):
                    if not relaxed:
                        ctx.check(post == pre, "create-calls-do-not-change-state")
                else:
                    model[who] = nxt
                    if not relaxed:
                        ctx.check(post[0] == nxt, "successor-state-per-jsep-table", "%s in %s -> %s (want %s)" % (call, state, post[0], nxt))
            if state == "closed":
                ctx.check(post[0] == "closed", "closed-is-absorbing")
            log.append((who, call, defect, None if exc is None else type(exc).__name__))
        clean = {"a": True, "b": True}
        for who in ("a", "b"):
            for t in pending[who]:
                try:
                    run(t)
                except (InvalidStateError, ValueError, InternalError):
                    clean[who] = False
        for t in closing:
            run(t)
        for who in ("a", "b"):
            if clean[who]:
                ctx.check(pcs[who].signalingState == model[who], "final-state-follows-the-jsep-table", "%s: %s, want %s" % (who, pcs[who].signalingState, model[who]))
            if model[who] == "closed":
                ctx.check(pcs[who].signalingState == "closed", "closed-is-absorbing", "after the pending close() completed")
        ctx.observe("log", log)
        ctx.observe("states", [pcs["a"].signalingState, pcs["b"].signalingState])
    finally:
        try:
            for p in pcs.values():
                loop.run_until_complete(p.close())
            pend = [t for t in asyncio.all_tasks(loop) if not t.done()]
            for t in pend:
                t.cancel()
            if pend:
                loop.run_until_complete(asyncio.gather(*pend, return_exceptions=True))
        except Exception:  # noqa: BLE001
            pass
        loop.close()
        asyncio.set_event_loop(None)


ENC = [
    "aiortc.rtcpeerconnection:RTCPeerConnection.createOffer",
    "aiortc.rtcpeerconnection:RTCPeerConnection.createAnswer",
    "aiortc.rtcpeerconnection:RTCPeerConnection.setLocalDescription",
    "aiortc.rtcpeerconnection:RTCPeerConnection.setRemoteDescription",
    "aiortc.rtcpeerconnection:RTCPeerConnection.close",
    "aiortc.rtcpeerconnection:RTCPeerConnection._RTCPeerConnection__validate_description",
    "aiortc.rtcsessiondescription:RTCSessionDescription.__post_init__",
]

HARNESSES = {
    "jsep": Harness(
        "jsep",
        h_jsep,
        lambda tier: [{"depth": d, "media": m} for m in ("data", "both") for d in ((2, 3) if tier == "quick" else (2, 3, 4))]
        + [{"depth": d, "media": m, "pre": "round"} for m in ("both", "data") for d in ((2,) if tier == "quick" else (2, 3))]
        + [{"depth": d, "media": "both", "pre": "round+swapped-offer"} for d in ((1, 2) if tier == "quick" else (1, 2, 3))],
        style="BMC over API call sequences (real objects, real event loop)",
        bounds="every sequence of 2..3 (quick) / 2..4 calls over {createOffer, createAnswer, setLocal(offer|answer|implicit), setRemote(offer|answer|defective with 10 kinds of alteration (9 defects and one legal variation)), close, close / setLocalDescription started but not yet awaited} applied to either peer of a pair (offerer with a data channel, or data channel + audio transceiver), from the initial state and (2 / 2..3 calls) from the state after one completed offer/answer round",
        encoded=ENC,
        stubs=["none: real RTCPeerConnection objects, aioice gathers on local interfaces; background connection tasks are cancelled at the end of every path"],
        outside=["pranswer / rollback", "sequences longer than 4 calls", "symbolic SDP content (C09)"],
        twin="call-made",
        opts={"samples": 1, "path_timeout_s": 120, "gc_guard": True},
    )
}
