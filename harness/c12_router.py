"""C12 - bundled RTP/RTCP routing: DIFF of the real RtpRouter against a reference router."""
from __future__ import annotations

from aiortc import rtp
from aiortc.rtcdtlstransport import RtpRouter
from aiortc.rtp import (
    RtcpByePacket,
    RtcpPsfbPacket,
    RtcpReceiverInfo,
    RtcpRrPacket,
    RtcpRtpfbPacket,
    RtcpSdesPacket,
    RtcpSenderInfo,
    RtcpSourceInfo,
    RtcpSrPacket,
    RtpPacket,
)

from sx import api as sx
from sx.runner import Harness

PROPERTY = "C12"
MODULES = ["aiortc.rtcdtlstransport", "aiortc.rtp"]
DEADLINE = {"quick": 300, "thorough": 1800}
U32 = 0xFFFFFFFF


class Obj:
    def __init__(self, name):
        self.name = name

    def __repr__(self):
        return self.name


class RefRouter:
    """Reference transcribed from the property text: registrations + SSRC latch."""

    def __init__(self):
        self.owner = []  # (ssrc, receiver), at most one entry per ssrc
        self.accept = []  # (payload type, receiver)
        self.senders = []  # (ssrc, sender), at most one entry per ssrc

    @staticmethod
    def _set(assoc, key, value):
        for i, (k, _) in enumerate(assoc):
            if k == key:
                assoc[i] = (key, value)
                return
        assoc.append((key, value))

    @staticmethod
    def _get(assoc, key):
        for k, v in assoc:
            if k == key:
                return v
        return None

    def register_receiver(self, r, ssrcs, pts):
        for s in ssrcs:
            self._set(self.owner, s, r)
        for pt in pts:
            if not any(k == pt and v is r for k, v in self.accept):
                self.accept.append((pt, r))

    def unregister_receiver(self, r):
        self.owner = [(k, v) for k, v in self.owner if v is not r]
        self.accept = [(k, v) for k, v in self.accept if v is not r]

    def register_sender(self, s, ssrc):
        self._set(self.senders, ssrc, s)

    def unregister_sender(self, s):
        self.senders = [(k, v) for k, v in self.senders if v is not s]

    def route_rtp(self, ssrc, pt):
        o = self._get(self.owner, ssrc)
        acc = [v for k, v in self.accept if k == pt]
        if o is not None:
            return o if any(a is o for a in acc) else None
        if len(acc) == 1:
            self.owner.append((ssrc, acc[0]))  # the SSRC sticks from then on
            return acc[0]
        return None

    def route_rtcp(self, recv_ssrcs, send_ssrcs):
        out = []
        for s in recv_ssrcs:
            r = self._get(self.owner, s)
            if r is not None and not any(x is r for x in out):
                out.append(r)
        for s in send_ssrcs:
            r = self._get(self.senders, s)
            if r is not None and not any(x is r for x in out):
                out.append(r)
        return out


def _rinfo(ssrc):
    return RtcpReceiverInfo(ssrc=ssrc, fraction_lost=0, packets_lost=0, highest_sequence=0, jitter=0, lsr=0, dlsr=0)


def _mk_rtcp(ctx, kind, i):
    """-> (packet, ssrcs that address receivers, ssrcs that address senders)"""
    a = ctx.int("c%d_a" % i, 0, U32)
    b = ctx.int("c%d_b" % i, 0, U32)
    if kind == "sr":
        return RtcpSrPacket(ssrc=a, sender_info=RtcpSenderInfo(0, 0, 0, 0), reports=[_rinfo(b)]), [a], [b]
    if kind == "rr":
        c = ctx.int("c%d_c" % i, 0, U32)
        return RtcpRrPacket(ssrc=a, reports=[_rinfo(b), _rinfo(c)]), [], [b, c]
    if kind == "bye":
        return RtcpByePacket(sources=[a, b]), [a, b], []
    if kind == "psfb":
        fmt = ctx.choice("c%d_fmt" % i, [1, 4])
        return RtcpPsfbPacket(fmt=fmt, ssrc=a, media_ssrc=b), [], [b]
    if kind == "remb":
        c = ctx.int("c%d_c" % i, 0, U32)
        fci = rtp.pack_remb_fci(ctx.int("c%d_rate" % i, 0, 0x3FFFF), [b, c])
        return RtcpPsfbPacket(fmt=15, ssrc=a, media_ssrc=0, fci=fci), [], [0, b, c]
    if kind == "rtpfb":
        return RtcpRtpfbPacket(fmt=1, ssrc=a, media_ssrc=b, lost=[1]), [], [b]
    if kind == "sdes":
        return RtcpSdesPacket(chunks=[RtcpSourceInfo(ssrc=a, items=[(1, b"x")])]), [], []
    raise ValueError(kind)


RTCP_KINDS = ["sr", "rr", "bye", "psfb", "remb", "rtpfb", "sdes"]


def h_router(ctx, ops):
    real = RtpRouter()
    ref = RefRouter()
    receivers = [Obj("R0"), Obj("R1"), Obj("R2")]
    senders = [Obj("S0"), Obj("S1")]
    # a sender owns one SSRC for its whole life (RTCRtpSender._ssrc) and is registered under it;
    # whether two senders collide on it is solver-decided
    for k, s in enumerate(senders):
        s._ssrc = ctx.int("sender%d_ssrc" % k, 0, U32)
    reg_r, reg_s = [], []  # ghost: currently registered objects
    log = []
    for i, op in enumerate(ops):
        if op == "r":
            r = ctx.choice("op%d_recv" % i, receivers)
            ssrcs = [ctx.int("op%d_ssrc%d" % (i, j), 0, U32) for j in range(2)]
            pts = [ctx.int("op%d_pt%d" % (i, j), 0, 127) for j in range(2)]
            real.register_receiver(r, ssrcs, pts)
            ref.register_receiver(r, ssrcs, pts)
            if r not in reg_r:
                reg_r.append(r)
        elif op == "u":
            r = ctx.choice("op%d_recv" % i, receivers)
            real.unregister_receiver(r)
            ref.unregister_receiver(r)
            if r in reg_r:
                reg_r.remove(r)
        elif op == "s":
            s = ctx.choice("op%d_send" % i, senders)
            ssrc = s._ssrc
            real.register_sender(s, ssrc)
            ref.register_sender(s, ssrc)
            if s not in reg_s:
                reg_s.append(s)
        elif op == "v":
            s = ctx.choice("op%d_send" % i, senders)
            real.unregister_sender(s)
            ref.unregister_sender(s)
            if s in reg_s:
                reg_s.remove(s)
        elif op == "p":
            ssrc = ctx.int("op%d_ssrc" % i, 0, U32)
            pt = ctx.int("op%d_pt" % i, 0, 127)
            got = real.route_rtp(RtpPacket(ssrc=ssrc, payload_type=pt))
            want = ref.route_rtp(ssrc, pt)
            ctx.reach("routed-rtp")
            ctx.check(got is want, "rtp-recipient-equals-reference")
            ctx.check(got is None or got in reg_r, "rtp-never-to-unregistered")
            log.append(("p", None if got is None else got.name))
        else:
            kind = ctx.choice("op%d_kind" % i, RTCP_KINDS)
            packet, rs, ss = _mk_rtcp(ctx, kind, i)
            got = list(real.route_rtcp(packet))
            want = ref.route_rtcp(rs, ss)
            ctx.reach("routed-rtcp")
            ctx.check(len(got) == len(want) and all(any(g is w for w in want) for g in got), "rtcp-recipients-equal-reference")
            ctx.check(all(g in reg_r or g in reg_s for g in got), "rtcp-never-to-unregistered")
            log.append(("c", kind, sorted(g.name for g in got)))
    ctx.observe("log", log)


def h_register_rtx(ctx, layout="single"):
    """Two receivers that accept the same payload types (two bundled video sections), each announced
    with its media SSRC and its RTX SSRC: after RTCDtlsTransport._register_rtp_receiver a packet on
    either SSRC - the retransmission stream included - reaches the receiver it was announced for."""
    import aiortc.rtcdtlstransport as dtlsmod
    from aiortc.rtcrtpparameters import RTCRtpCodecParameters, RTCRtpDecodingParameters, RTCRtpReceiveParameters, RTCRtpRtxParameters

    class Stand:
        def __init__(self):
            self._rtp_router = RtpRouter()
            self._rtp_header_extensions_map = rtp.HeaderExtensionsMap()

    d = Stand()
    ssrcs = [ctx.int("ssrc%d" % i, 0, U32) for i in range(4)]
    for i in range(4):
        for j in range(i):
            ctx.assume(ssrcs[i] != ssrcs[j], "announced SSRCs are distinct")
    codecs = [RTCRtpCodecParameters(mimeType="video/VP8", clockRate=90000, payloadType=96), RTCRtpCodecParameters(mimeType="video/rtx", clockRate=90000, payloadType=97, parameters={"apt": 96})]
    recvs = [Obj("R0"), Obj("R1")]
    if layout == "rtx-on-later-codec":
        # one encoding per media codec, all for the same stream; only VP8 has an RTX companion
        codecs = [RTCRtpCodecParameters(mimeType="video/H264", clockRate=90000, payloadType=98)] + codecs
    for k, r in enumerate(recvs):
        encs = [RTCRtpDecodingParameters(ssrc=ssrcs[2 * k], payloadType=96, rtx=RTCRtpRtxParameters(ssrc=ssrcs[2 * k + 1]))]
        if layout == "rtx-on-later-codec":
            encs.insert(0, RTCRtpDecodingParameters(ssrc=ssrcs[2 * k], payloadType=98))
        dtlsmod.RTCDtlsTransport._register_rtp_receiver(d, r, RTCRtpReceiveParameters(codecs=codecs, encodings=encs, muxId=str(k)))
    ctx.reach("receivers-registered")
    for k, r in enumerate(recvs):
        got = d._rtp_router.route_rtp(RtpPacket(ssrc=ssrcs[2 * k], payload_type=96))
        ctx.check(got is r, "media-ssrc-reaches-its-receiver")
        got = d._rtp_router.route_rtp(RtpPacket(ssrc=ssrcs[2 * k + 1], payload_type=97))
        ctx.check(got is r, "rtx-ssrc-reaches-the-receiver-it-was-announced-for", "receiver %d got %r" % (k, got))
    ctx.observe("ok", True)


def h_compound(ctx, first, second):
    """A compound RTCP datagram whose first packet makes its recipient unregister another endpoint
    (a stop() racing with the dispatch): the later packets of the same datagram are routed against
    the registrations as they are *then* - nothing reaches an endpoint that is already unregistered."""
    import aiortc.rtcdtlstransport as dtlsmod

    class Stand:
        def __init__(self):
            self._rtp_router = RtpRouter()

        def _RTCDtlsTransport__log_debug(self, *a):
            pass

    d = Stand()
    router = d._rtp_router
    s1, s2 = Obj("S1"), Obj("S2")
    ssrc1 = ctx.int("s1_ssrc", 0, U32)
    ssrc2 = ctx.int("s2_ssrc", 0, U32)
    ctx.assume(ssrc1 != ssrc2, "two senders, two SSRCs")
    s1._ssrc, s2._ssrc = ssrc1, ssrc2
    got = {"S1": [], "S2": []}
    gone = []

    async def h1(packet):
        got["S1"].append(type(packet).__name__)
        if not gone:
            router.unregister_sender(s2)  # e.g. the application stops the other sender right now
            gone.append(s2)

    async def h2(packet):
        got["S2"].append(type(packet).__name__)

    s1._handle_rtcp_packet, s2._handle_rtcp_packet = h1, h2
    router.register_sender(s1, ssrc1)
    router.register_sender(s2, ssrc2)

    def mk(kind, target):
        if kind == "nack":
            return RtcpRtpfbPacket(fmt=1, ssrc=1, media_ssrc=target, lost=[7])
        if kind == "pli":
            return RtcpPsfbPacket(fmt=1, ssrc=1, media_ssrc=target)
        return RtcpRrPacket(ssrc=1, reports=[_rinfo(target)])

    data = sx.to_bytes(mk(first, ssrc1)) + sx.to_bytes(mk(second, ssrc2))
    sx.run(dtlsmod.RTCDtlsTransport._handle_rtcp_data(d, data))
    ctx.reach("compound-dispatched")
    ctx.check(len(got["S1"]) == 1, "first-packet-reaches-its-sender")
    ctx.check(got["S2"] == [], "nothing-routed-to-an-endpoint-unregistered-during-the-dispatch", repr(got["S2"]))
    ctx.observe("n", len(got["S1"]))


def h_rtcp_wire(ctx, form):
    """RTCP datagrams in legal wire forms the library itself never produces (a BYE with the optional
    reason-for-leaving text, a padded packet), fed as bytes
    through _handle_rtcp_data: every packet still reaches exactly the endpoints it reports on."""
    import aiortc.rtcdtlstransport as dtlsmod
    from sx.shims import sx_pack

    class Stand:
        def __init__(self):
            self._rtp_router = RtpRouter()

        def _RTCDtlsTransport__log_debug(self, *a):
            pass

    d = Stand()
    router = d._rtp_router
    s1, r1, r2 = Obj("S1"), Obj("R1"), Obj("R2")
    s_ssrc, r_ssrc, o_ssrc = ctx.int("sender_ssrc", 0, U32), ctx.int("remote_ssrc", 0, U32), ctx.int("other_remote_ssrc", 0, U32)
    ctx.assume(r_ssrc != o_ssrc, "two remote streams, two SSRCs")
    s1._ssrc = s_ssrc
    got = {"S1": [], "R1": [], "R2": []}
    for o in (s1, r1, r2):
        async def h(packet, _n=o.name):
            got[_n].append(type(packet).__name__)

        o._handle_rtcp_packet = h
    router.register_sender(s1, s_ssrc)
    router.register_receiver(r1, ssrcs=[r_ssrc], payload_types=[96], mid=None)
    router.register_receiver(r2, ssrcs=[o_ssrc], payload_types=[97], mid=None)
    rr = sx.to_bytes(RtcpRrPacket(ssrc=r_ssrc, reports=[_rinfo(s_ssrc)]))
    reason = b"\x03bye"
    bye = bytes([0x81, 203, 0, 2]) + sx_pack("!L", r_ssrc) + reason
    want = {"S1": [], "R1": [], "R2": []}
    if form == "bye-reason":
        data = bye
        want["R1"] = ["RtcpByePacket"]
    elif form == "rr-bye-reason":
        data = rr + bye
        want["S1"], want["R1"] = ["RtcpRrPacket"], ["RtcpByePacket"]
    elif form == "unroutable-rr-then-nack":
        # the first packet reports on an SSRC nobody is registered for; the second is for S1
        unknown = ctx.int("unknown_ssrc", 0, U32)
        ctx.assume(unknown != s_ssrc, "an SSRC without a registered sender")
        data = sx.to_bytes(RtcpRrPacket(ssrc=r_ssrc, reports=[_rinfo(unknown)])) + sx.to_bytes(RtcpRtpfbPacket(fmt=1, ssrc=1, media_ssrc=s_ssrc, lost=[7]))
        want["S1"] = ["RtcpRtpfbPacket"]
    elif form == "sr-two-reports":
        # a sender report with two report blocks; the second one is about S1
        unknown = ctx.int("unknown_ssrc", 0, U32)
        ctx.assume(unknown != s_ssrc, "an SSRC without a registered sender")
        data = sx.to_bytes(RtcpSrPacket(ssrc=r_ssrc, sender_info=RtcpSenderInfo(ctx.int("ntp", 0, (1 << 64) - 1), ctx.int("rtp_ts", 0, U32), 5, 500), reports=[_rinfo(unknown), _rinfo(s_ssrc)]))
        want["S1"], want["R1"] = ["RtcpSrPacket"], ["RtcpSrPacket"]
    elif form == "remb-two-ssrcs":
        unknown = ctx.int("unknown_ssrc", 0, U32)
        ctx.assume(unknown != s_ssrc, "an SSRC without a registered sender")
        ctx.assume(s_ssrc != 0, "media_ssrc 0 of a REMB addresses nobody here")
        data = sx.to_bytes(RtcpPsfbPacket(fmt=15, ssrc=r_ssrc, media_ssrc=0, fci=rtp.pack_remb_fci(ctx.int("rate", 0, 0x3FFFF), [unknown, s_ssrc])))
        want["S1"] = ["RtcpPsfbPacket"]
    elif form == "sdes-then-bye":
        data = sx.to_bytes(RtcpSdesPacket(chunks=[RtcpSourceInfo(ssrc=r_ssrc, items=[(1, b"x")])])) + sx.to_bytes(RtcpByePacket(sources=[o_ssrc]))
        want["R2"] = ["RtcpByePacket"]
    else:  # padded RR followed by nothing
        data = bytes([0xA1, 201, 0, 8]) + rr[4:] + b"\x00\x00\x00\x04"
        want["S1"] = ["RtcpRrPacket"]
    sx.run(dtlsmod.RTCDtlsTransport._handle_rtcp_data(d, data))
    ctx.reach("wire-dispatched")
    for n in ("S1", "R1", "R2"):
        ctx.check(got[n] == want[n], "wire-form-%s-reaches-exactly-its-endpoints" % form, "%s got %r" % (n, got[n]))
    ctx.observe("got", sorted(k for k, v in got.items() if v))


def _jobs(tier):
    import itertools

    k = 3 if tier == "quick" else 4
    jobs = []
    for n in range(1, k + 1):
        for seq in itertools.product("rusvpc", repeat=n):
            if seq[-1] not in "pc":
                continue
            if seq[0] in "uv":
                continue  # unregistering from the empty router is a no-op
            jobs.append({"ops": "".join(seq)})
    if tier == "quick":
        # length-4 histories around unregistering one of two endpoints that share payload types / SSRCs
        jobs += [{"ops": o} for o in ("rrup", "rruc", "rpup", "ssvc")]
    if tier == "thorough":
        # a family of length-5 histories around re-registration and latching
        for mid in itertools.product("rup", repeat=2):
            jobs.append({"ops": "r" + "".join(mid) + "up"})
            jobs.append({"ops": "rr" + "".join(mid) + "p"})
    return jobs


ENC = [
    "aiortc.rtcdtlstransport:RtpRouter.register_receiver",
    "aiortc.rtcdtlstransport:RtpRouter.register_sender",
    "aiortc.rtcdtlstransport:RtpRouter.route_rtcp",
    "aiortc.rtcdtlstransport:RtpRouter.route_rtp",
    "aiortc.rtcdtlstransport:RtpRouter.unregister_receiver",
    "aiortc.rtcdtlstransport:RtpRouter.unregister_sender",
    "aiortc.rtp:unpack_remb_fci",
]

HARNESSES = {
    "rtcp-wire": Harness("rtcp-wire", h_rtcp_wire, lambda tier: [{"form": f} for f in ("bye-reason", "rr-bye-reason", "padded-rr", "unroutable-rr-then-nack", "sdes-then-bye", "sr-two-reports", "remb-two-ssrcs")], style="STEP", bounds="one datagram in each of seven forms (the last two: an SR with two report blocks and a REMB with two SSRCs, the second entry being the registered sender): three legal wire forms the library never produces itself (BYE with reason text, alone and after an RR; padded RR) and two compounds whose first packet has no recipient (RR about an unknown SSRC then NACK; SDES then BYE); one sender and two receivers with symbolic SSRCs", encoded=["aiortc.rtcdtlstransport:RTCDtlsTransport._handle_rtcp_data", "aiortc.rtcdtlstransport:RtpRouter.route_rtcp", "aiortc.rtp:RtcpPacket.parse", "aiortc.rtp:RtcpByePacket.parse", "aiortc.rtp:RtcpRrPacket.parse"], twin="wire-dispatched", opts={"samples": 1}),
    "register-rtx": Harness("register-rtx", h_register_rtx, lambda tier: [{"layout": l} for l in ("single", "rtx-on-later-codec")], style="STEP", bounds="two receivers sharing payload types 96/97 (and 98), four symbolic distinct SSRCs (media + RTX each); one encoding, or one encoding per media codec with the RTX companion on the second", encoded=["aiortc.rtcdtlstransport:RTCDtlsTransport._register_rtp_receiver", "aiortc.rtcdtlstransport:RtpRouter.route_rtp"], twin="receivers-registered", opts={"samples": 1}),
    "compound": Harness("compound", h_compound, lambda tier: [{"first": a, "second": b} for a in ("nack", "rr") for b in ("pli", "rr", "nack")], style="STEP", bounds="compound datagram of two RTCP packets (NACK/RR then PLI/RR/NACK) for two senders with symbolic distinct SSRCs; the first recipient unregisters the second while it handles its packet", encoded=["aiortc.rtcdtlstransport:RTCDtlsTransport._handle_rtcp_data", "aiortc.rtcdtlstransport:RtpRouter.route_rtcp"], twin="compound-dispatched", opts={"samples": 1}),
    "router": Harness(
        "router",
        h_router,
        _jobs,
        style="DIFF (BMC)",
        bounds="every operation sequence over {register/unregister receiver, register/unregister sender, route RTP, route RTCP} of length <=3 (quick) / <=4 (+ a length-5 family, thorough); 3 receivers, 2 senders; SSRC lists of 2 and payload-type lists of 2 symbolic values per registration (overlaps solver-decided); RTCP kinds SR, RR (2 reports), BYE (2 sources), PSFB PLI/FIR, REMB (2 SSRCs), RTPFB, SDES",
        encoded=ENC,
        twin="routed-rtcp",
        opts={"samples": 1},
    )
}
