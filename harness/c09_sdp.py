"""C09 - session descriptions survive parse / serialise round trips."""
from __future__ import annotations

from aiortc import sdp as sdpmod
from aiortc.rtcdtlstransport import RTCDtlsFingerprint, RTCDtlsParameters
from aiortc.rtcicetransport import RTCIceCandidate, RTCIceParameters
from aiortc.rtcrtpparameters import RTCRtcpFeedback, RTCRtpCodecParameters, RTCRtpHeaderExtensionParameters, RTCRtpParameters
from aiortc.rtcsctptransport import RTCSctpCapabilities
from aiortc.sdp import GroupDescription, MediaDescription, SessionDescription, SsrcDescription, candidate_from_sdp, candidate_to_sdp

from sx import api as sx
from sx.runner import Harness

PROPERTY = "C09"
MODULES = ["aiortc.sdp", "aiortc.rtcrtpparameters"]
DEADLINE = {"quick": 300, "thorough": 1500}
U16, U32 = 0xFFFF, 0xFFFFFFFF


def _tok(ctx, name, n=2):
    """A token of n symbolic lower-case letters (never a delimiter, never a digit)."""
    return ctx.str(name, n, 0x61, 0x7A)


VARIANT = [0]


def pick(ctx, name, options):
    """Enumerated attributes vary together along the job's variant index (each value of each
    attribute is covered, their full product is not): no solver fork."""
    options = list(options)
    salt = sum(ord(c) for c in name)
    return options[(VARIANT[0] * (1 + salt % 3) + salt) % len(options)]


def _str(x):
    """str() that works for objects whose __str__ yields a symbolic string."""
    from sx.shims import sx_str

    return sx_str(x)


def _candidate(ctx, tag, kind):
    c = RTCIceCandidate(
        component=ctx.int(tag + "component", 1, 256),
        foundation=_tok(ctx, tag + "foundation"),
        ip=pick(ctx, tag + "ip", ["192.168.1.7", "2001:db8::1", "10.0.0.1"]),
        port=ctx.int(tag + "port", 0, U16),
        priority=ctx.int(tag + "priority", 0, U32),
        protocol=pick(ctx, tag + "protocol", ["udp", "tcp"]),
        type=pick(ctx, tag + "type", ["host", "srflx", "relay"]),
    )
    if kind in ("raddr", "all"):
        c.relatedAddress = pick(ctx, tag + "raddr", ["1.2.3.4", "::1"])
        c.relatedPort = ctx.int(tag + "rport", 0, U16)
    if kind in ("tcptype", "all"):
        c.tcpType = pick(ctx, tag + "tcptype", ["active", "passive", "so"])
    return c


def _cand_eq(a, b):
    return sx.And(*[sx.deep_eq(getattr(a, f), getattr(b, f)) for f in ("component", "foundation", "ip", "port", "priority", "protocol", "type", "relatedAddress", "relatedPort", "tcpType")])


def h_candidate(ctx, kind, variant=0):
    VARIANT[0] = variant
    c = _candidate(ctx, "", kind)
    line = candidate_to_sdp(c)
    d = candidate_from_sdp(line)
    ctx.reach("candidate-parsed")
    ctx.check(_cand_eq(c, d), "candidate-fields-roundtrip")
    ctx.check(sx.eq(candidate_to_sdp(d), line), "candidate-line-roundtrips-exactly")
    ctx.observe("line", line)


class _Json:
    """json stand-in for the signalling helper: a lossless codec (the text form is not modelled)."""

    class _Text:
        def __init__(self, obj):
            self.obj = obj

    @staticmethod
    def dumps(obj, sort_keys=False):
        return _Json._Text(dict(obj))

    @staticmethod
    def loads(text):
        return dict(text.obj)


def h_signaling(ctx, kind, variant=0):
    """contrib.signaling: a candidate survives object_to_string / object_from_string."""
    from aiortc.contrib import signaling

    from .util import Patch

    VARIANT[0] = variant
    c = _candidate(ctx, "", kind)
    c.sdpMid = _tok(ctx, "mid", 1)
    c.sdpMLineIndex = ctx.int("mline", 0, 9)
    with Patch(signaling, json=_Json):
        d = signaling.object_from_string(signaling.object_to_string(c))
    ctx.reach("signalled")
    ctx.check(_cand_eq(c, d), "signalled-candidate-fields-roundtrip")
    ctx.check(sx.And(sx.deep_eq(d.sdpMid, c.sdpMid), sx.deep_eq(d.sdpMLineIndex, c.sdpMLineIndex)), "signalled-candidate-keeps-mid-and-mline-index")
    ctx.observe("ok", True)


def h_fmtp_spacing(ctx, n, variant=0):
    """a=fmtp parameter lists are written both as 'a=1;b=2' and, in RFC 6184's own examples and by
    several stacks, as 'a=1; b=2': both spellings must yield the same parameters."""
    from aiortc.sdp import parameters_from_sdp

    VARIANT[0] = variant
    items = []
    for i in range(n):
        k = pick(ctx, "k%d" % i, ["packetization-mode", "profile-level-id", "level-asymmetry-allowed", "apt"]) if i else "profile-level-id"
        v = ctx.int("v%d" % i, 0, 255) if k in ("apt", "packetization-mode", "level-asymmetry-allowed") else _tok(ctx, "v%d" % i)
        items.append((k, v))
    keys = [k for k, _ in items]
    if len(set(keys)) != len(keys):
        raise sx.PathAbort()
    tight = ";".join("%s=%s" % (k, _str(v)) for k, v in items) if not sx.active() else sx_join_items(items, ";")
    loose = "; ".join("%s=%s" % (k, _str(v)) for k, v in items) if not sx.active() else sx_join_items(items, "; ")
    a = parameters_from_sdp(tight)
    b = parameters_from_sdp(loose)
    ctx.reach("fmtp-parsed")
    ctx.check(sorted(a.keys()) == keys_sorted(keys), "tight-spelling-recovers-the-parameter-names")
    ctx.check(sorted(b.keys()) == keys_sorted(keys), "spelling-with-a-space-after-the-semicolon-recovers-the-same-names", repr(sorted(b.keys())))
    for k in keys:
        if k in b and k in a:
            ctx.check(sx.deep_eq(a[k], b[k]), "both-spellings-give-the-same-values")
    # untidy but accepted lists (trailing / doubled separators, whitespace-only segments): one round
    # of parse-and-serialise reaches a fixed point
    from aiortc.sdp import parameters_to_sdp

    tail = ctx.choice("tail", ["", ";", "; ", " ;", "; ;", ";;"])
    mid = ctx.choice("mid", [";", "; ", "; ;", ";;", " ; "])
    untidy = (mid.join("%s=%s" % (k, _str(v)) for k, v in items) if not sx.active() else sx_join_items(items, mid)) + tail
    once = parameters_to_sdp(parameters_from_sdp(untidy))
    twice = parameters_to_sdp(parameters_from_sdp(once))
    ctx.check(sx.eq(once, twice), "untidy-fmtp-list-reaches-a-fixed-point-after-one-round", "tail=%r mid=%r" % (tail, mid))
    ctx.observe("n", len(a))


def keys_sorted(keys):
    return sorted(keys)


def sx_join_items(items, sep):
    out = None
    for k, v in items:
        piece = k + "=" + _str(v)
        out = piece if out is None else out + sep + piece
    return out


def _media(ctx, i, kind, ncodecs, extras):
    tag = "m%d_" % i
    if kind == "application":
        legacy = pick(ctx, tag + "legacy", [False, True]) if extras else False
        port = ctx.int(tag + "sctp_port", 1, U16)
        if legacy:
            m = MediaDescription(kind="application", port=ctx.int(tag + "port", 0, U16), profile="DTLS/SCTP", fmt=[port])
            m.sctpmap[port] = "webrtc-datachannel 65535"
        else:
            m = MediaDescription(kind="application", port=ctx.int(tag + "port", 0, U16), profile="UDP/DTLS/SCTP", fmt=["webrtc-datachannel"])
            m.sctp_port = port
        m.sctpCapabilities = RTCSctpCapabilities(maxMessageSize=ctx.int(tag + "mms", 0, U32))
    else:
        pts = []
        codecs = []
        for j in range(ncodecs):
            pt = ctx.int(tag + "pt%d" % j, 96, 127)
            for q in pts:
                ctx.assume(pt != q)
            pts.append(pt)
            name = pick(ctx, tag + "codec%d" % j, ["opus", "PCMU"] if kind == "audio" else ["VP8", "H264", "rtx"])
            codec = RTCRtpCodecParameters(
                mimeType=kind + "/" + name,
                clockRate=ctx.int(tag + "clock%d" % j, 1, 200000),
                channels=(pick(ctx, tag + "ch%d" % j, [1, 2, 6]) if kind == "audio" else None),
                payloadType=pt,
            )
            if name == "rtx" and j > 0:
                codec.parameters = {"apt": pts[0]}
            elif name == "H264":
                codec.parameters = {"packetization-mode": "1", "profile-level-id": _tok(ctx, tag + "plid%d" % j)}
            elif name == "opus":
                codec.parameters = {"minptime": ctx.int(tag + "minptime%d" % j, 0, 1000), "useinbandfec": 1}
            if name != "rtx":
                fb = [RTCRtcpFeedback(type="nack"), RTCRtcpFeedback(type="nack", parameter="pli"), RTCRtcpFeedback(type="ccm", parameter="tmmbr smaxpr=120")]
                codec.rtcpFeedback = pick(ctx, tag + "nfb%d" % j, [[], fb[:1], fb[:2], fb[1:]])
            codecs.append(codec)
        m = MediaDescription(kind=kind, port=ctx.int(tag + "port", 0, U16), profile="UDP/TLS/RTP/SAVPF", fmt=list(pts))
        m.rtp = RTCRtpParameters(codecs=codecs)
        m.direction = pick(ctx, tag + "direction", ["sendrecv", "sendonly", "recvonly", "inactive"])
        m.msid = _tok(ctx, tag + "stream") + " " + _tok(ctx, tag + "track")
        m.rtcp_host = pick(ctx, tag + "rtcp_host", ["0.0.0.0", "2001:0db8::0001"])
        m.rtcp_port = ctx.int(tag + "rtcp_port", 0, U16)
        m.rtcp_mux = True
        if extras:
            m.rtp.headerExtensions = [RTCRtpHeaderExtensionParameters(id=ctx.int(tag + "ext_id", 1, 255), uri="urn:ietf:params:rtp-hdrext:sdes:mid")]
            s1, s2 = ctx.int(tag + "ssrc1", 0, U32), ctx.int(tag + "ssrc2", 0, U32)
            ctx.assume(s1 != s2)
            cname = _tok(ctx, tag + "cname")
            m.ssrc = [SsrcDescription(ssrc=s1, cname=cname), SsrcDescription(ssrc=s2, cname=cname)]
            m.ssrc_group = [GroupDescription(semantic="FID", items=[s1, s2])]
    m.rtp.muxId = _tok(ctx, tag + "mid", 1)
    m.host = pick(ctx, tag + "host", [None, "192.168.0.5", "2001:DB8:0:0:0:0:0:1"]) if extras else None  # (a legal, non-canonical IPv6 spelling must come back as written)
    m.ice = RTCIceParameters(usernameFragment=_tok(ctx, tag + "ufrag"), password=_tok(ctx, tag + "pwd"))
    m.ice_options = "trickle" if extras else None
    if extras:
        m.ice_candidates = [_candidate(ctx, tag + "c0_", "raddr")]
        m.ice_candidates_complete = pick(ctx, tag + "eoc", [False, True])
    m.dtls = RTCDtlsParameters(
        # one, two or (a role alone is structurally valid too) no fingerprint
        fingerprints=[RTCDtlsFingerprint(algorithm=a, value=_tok(ctx, tag + "fp" + a[-3:])) for a in pick(ctx, tag + "fps", [["sha-256"], ["sha-256", "sha-384"], []])],
        role=pick(ctx, tag + "role", ["auto", "client", "server"]),
    )
    return m


MEDIA_FIELDS = ["kind", "port", "host", "profile", "direction", "msid", "rtcp_port", "rtcp_host", "rtcp_mux", "fmt", "sctp_port", "ice_options", "ice_candidates_complete"]


def _media_eq(ctx, a, b, where):
    for f in MEDIA_FIELDS:
        if f == "fmt":
            # (the legacy SCTP syntax is built with an int format and parsed back as text)
            ctx.check(sx.deep_eq([_str(x) for x in a.fmt], [_str(x) for x in b.fmt]), where + "-fmt")
            continue
        ctx.check(sx.deep_eq(getattr(a, f), getattr(b, f)), where + "-" + f)
    ctx.check(sx.deep_eq(a.rtp.muxId, b.rtp.muxId), where + "-mid")
    ctx.check(len(a.rtp.codecs) == len(b.rtp.codecs), where + "-codec-count")
    for ca, cb in zip(a.rtp.codecs, b.rtp.codecs):
        ctx.check(sx.And(sx.deep_eq(ca.mimeType, cb.mimeType), sx.deep_eq(ca.clockRate, cb.clockRate), sx.deep_eq(ca.payloadType, cb.payloadType)), where + "-codec")
        ctx.check(sx.deep_eq(ca.channels if a.kind == "audio" else None, cb.channels), where + "-codec-channels")
        ctx.check(sx.deep_eq(list(ca.rtcpFeedback), list(cb.rtcpFeedback)), where + "-codec-feedback")
        pa, pb = ca.parameters, cb.parameters
        ctx.check(sorted(pa.keys()) == sorted(pb.keys()), where + "-fmtp-keys")
        for k in pa.keys():
            if k in pb:
                ctx.check(sx.deep_eq(pa[k], pb[k]), where + "-fmtp-" + k)
    ctx.check(sx.deep_eq(list(a.rtp.headerExtensions), list(b.rtp.headerExtensions)), where + "-extensions")
    ctx.check(sx.deep_eq(list(a.ssrc), list(b.ssrc)), where + "-ssrc")
    ctx.check(sx.deep_eq([(g.semantic, list(g.items)) for g in a.ssrc_group], [(g.semantic, list(g.items)) for g in b.ssrc_group]), where + "-ssrc-group")
    ctx.check(sx.And(sx.deep_eq(a.ice.usernameFragment, b.ice.usernameFragment), sx.deep_eq(a.ice.password, b.ice.password)), where + "-ice-credentials")
    ctx.check(len(a.ice_candidates) == len(b.ice_candidates), where + "-candidate-count")
    for x, y in zip(a.ice_candidates, b.ice_candidates):
        ctx.check(_cand_eq(x, y), where + "-candidate")
    ctx.check(b.dtls is not None, where + "-dtls-parameters-present")
    if b.dtls is not None:
        ctx.check(sx.deep_eq([(f.algorithm, f.value) for f in a.dtls.fingerprints], [(f.algorithm, f.value) for f in b.dtls.fingerprints]), where + "-fingerprints")
        ctx.check(a.dtls.role == b.dtls.role, where + "-dtls-role")
    ctx.check(sx.deep_eq(a.sctpCapabilities, b.sctpCapabilities), where + "-max-message-size")
    ctx.check(sx.deep_eq(list(a.sctpmap.items()), list(b.sctpmap.items())), where + "-sctpmap")


def h_description(ctx, kinds, ncodecs, extras, variant=0):
    VARIANT[0] = variant
    d = SessionDescription()
    d.origin = "- 3999 3999 IN IP4 0.0.0.0"
    d.host = pick(ctx, "session_host", [None, "10.1.2.3"]) if extras else None
    for i, k in enumerate(kinds):
        d.media.append(_media(ctx, i, k, ncodecs, extras))
    for i in range(len(d.media)):
        for j in range(i):
            ctx.assume(sx.Not(sx.eq(d.media[i].rtp.muxId, d.media[j].rtp.muxId)), "mids are distinct")
    d.group = [GroupDescription(semantic="BUNDLE", items=[m.rtp.muxId for m in d.media])]
    d.msid_semantic = [GroupDescription(semantic="WMS", items=pick(ctx, "wms_items", [["*"], [], [_tok(ctx, "wms_stream")]]))]  # (Chrome sends "a=msid-semantic: WMS" without members)
    text = _str(d)
    ctx.reach("serialised")
    e = SessionDescription.parse(text)
    ctx.reach("parsed")
    text2 = _str(e)
    ctx.check(sx.eq(text2, text), "fixed-point-of-parse-then-serialise")
    ctx.check(sx.And(sx.deep_eq(e.origin, d.origin), sx.deep_eq(e.host, d.host), e.version == 0, e.name == "-", e.time == "0 0"), "session-level-fields")
    ctx.check(sx.deep_eq([(g.semantic, list(g.items)) for g in e.group], [(g.semantic, list(g.items)) for g in d.group]), "bundle-group")
    ctx.check(sx.deep_eq([(g.semantic, list(g.items)) for g in e.msid_semantic], [(g.semantic, list(g.items)) for g in d.msid_semantic]), "msid-semantic-group")
    ctx.check(len(e.media) == len(d.media), "media-count")
    for i, (a, b) in enumerate(zip(d.media, e.media)):
        _media_eq(ctx, a, b, "media")
    # idempotence of one more round
    ctx.check(sx.eq(_str(SessionDescription.parse(text2)), text2), "second-round-idempotent")
    ctx.observe("text", text)


ENC = [
    "aiortc.sdp:SessionDescription.parse",
    "aiortc.sdp:SessionDescription.__str__",
    "aiortc.sdp:MediaDescription.__str__",
    "aiortc.sdp:candidate_from_sdp",
    "aiortc.sdp:candidate_to_sdp",
    "aiortc.sdp:parameters_from_sdp",
    "aiortc.sdp:parameters_to_sdp",
    "aiortc.sdp:parse_group",
    "aiortc.sdp:parse_attr",
    "aiortc.sdp:grouplines",
    "aiortc.sdp:ipaddress_from_sdp",
    "aiortc.sdp:ipaddress_to_sdp",
    "aiortc.sdp:GroupDescription.__str__",
    "aiortc.rtcrtpparameters:RTCRtpCodecParameters.__str__",
]
STUBS = ["none; integers are rendered as lazy decimal atoms, tokens are 1-2 symbolic lower-case letters, IP literals come from a small concrete set (the ipaddress module is real)"]
OUT = [
    "arbitrary character-level SDP text (a minimal parseable description is > 40 characters); tokens longer than 2 characters; > 2 media sections",
    "descriptions produced by real createOffer/createAnswer (concrete instances are exercised by C14)",
    "contrib.signaling object_to_string/object_from_string (json, a C accelerator)",
]


def _desc_jobs(tier):
    jobs = []
    for kinds in (["audio"], ["video"], ["application"], ["audio", "application"], ["video", "audio"]):
        for ncodecs in (1, 2):
            if "audio" not in kinds and "video" not in kinds and ncodecs == 2:
                continue
            for extras in (False, True):
                if tier == "quick" and extras and len(kinds) == 2 and ncodecs == 2:
                    continue
                for variant in range(3 if tier == "quick" else 6):
                    jobs.append({"kinds": kinds, "ncodecs": ncodecs, "extras": extras, "variant": variant})
    return jobs


HARNESSES = {
    "fmtp-spacing": Harness("fmtp-spacing", h_fmtp_spacing, lambda tier: [{"n": n, "variant": v} for n in (2, 3) for v in range(2)], style="DIFF (two spellings)", bounds="fmtp lists of 2..3 parameters (names from the H.264 / RTX set, integer values symbolic 0..255, token values 2 symbolic letters) written with ';' and with '; '; plus untidy lists (separator from {';', '; ', '; ;', ';;', ' ; '}, tail from {'', ';', '; ', ' ;', '; ;', ';;'}) for the fixed-point check", encoded=["aiortc.sdp:parameters_from_sdp", "aiortc.sdp:parameters_to_sdp"], stubs=STUBS, outside=OUT, twin="fmtp-parsed"),
    "signaling": Harness("signaling", h_signaling, lambda tier: [{"kind": k, "variant": v} for k in ("plain", "all") for v in range(3 if tier == "quick" else 6)], style="RT", bounds="candidates as in the candidate harness (IPv4 and IPv6 addresses) through contrib.signaling object_to_string/object_from_string", encoded=["aiortc.contrib.signaling:object_to_string", "aiortc.contrib.signaling:object_from_string"] + ENC, stubs=STUBS + ["json.dumps/loads -> lossless stand-in (the JSON text is not modelled)"], outside=OUT, twin="signalled"),
    "candidate": Harness("candidate", h_candidate, lambda tier: [{"kind": k, "variant": v} for k in ("plain", "raddr", "tcptype", "all") for v in range(6)], style="RT", bounds="all integer fields symbolic over their full range (lazy decimal atoms), foundation 2 symbolic letters, ip/protocol/type/tcptype from small sets, with and without raddr/rport/tcptype", encoded=ENC, stubs=STUBS, outside=OUT, twin="candidate-parsed"),
    "description": Harness("description", h_description, _desc_jobs, style="RT", bounds="<=2 media sections (audio/video/application, both SCTP syntaxes), <=2 codecs with symbolic payload type / clock rate / channels / fmtp int, str and flag-like parameters / <=2 feedback entries, header extension, 2 SSRCs + cname + FID group, ICE ufrag/pwd/options, one candidate, end-of-candidates, 0..2 fingerprints, setup role, sctp-port, max-message-size, BUNDLE and WMS groups, session and media c= lines", encoded=ENC, stubs=STUBS, outside=OUT, twin="parsed", opts={"samples": 1}),
}
