"""C11 - video frames reach the decoder unspliced; lost packets are recovered by NACK / RTX."""
from __future__ import annotations

import asyncio as _real_asyncio

import aiortc.codecs.vpx as vpx
import aiortc.rtcrtpreceiver as recvmod
import aiortc.rtcrtpsender as sendmod
from aiortc.codecs.vpx import Vp8Encoder
from aiortc.rtcrtpparameters import RTCRtpCodecParameters
from aiortc.rtcrtpreceiver import NackGenerator, RTCRtpReceiver
from aiortc.rtcrtpsender import RTCEncodedFrame, RTCRtpSender
from aiortc.rtp import RtcpPacket, RtcpPsfbPacket, RtcpRtpfbPacket, RtpPacket, unwrap_rtx

from sx import api as sx
from sx.runner import Harness

from .util import Patch, StubAsyncio

PROPERTY = "C11"
MODULES = ["aiortc.rtcrtpreceiver", "aiortc.rtcrtpsender", "aiortc.rtp", "aiortc.jitterbuffer", "aiortc.codecs.vpx"]
DEADLINE = {"quick": 400, "thorough": 2400}
U16, U32 = 0xFFFF, 0xFFFFFFFF
SSRC, RTX_SSRC, RSSRC = 0x1111, 0x2222, 0x9999
VP8 = RTCRtpCodecParameters(mimeType="video/VP8", clockRate=90000, payloadType=96)
RTX = RTCRtpCodecParameters(mimeType="video/rtx", clockRate=90000, payloadType=97, parameters={"apt": 96})
AHEAD_MAX = 8  # forward jump covered symbolically; larger jumps by the concrete-size nack-jump runs


class _Tr:
    state = "connected"
    _stats_id = "t"

    def __init__(self):
        self.sent = []

    async def _send_rtp(self, data):
        self.sent.append(data)

    def _get_stats(self):
        return {}


# --------------------------------------------------------------------------------- NACK generator
def h_nack_step(ctx, nmissing, near):
    """One NackGenerator.add from a symbolic state; missing' = ((missing + newly skipped) - {seq})
    restricted to the 128-packet window."""
    g = NackGenerator()
    mx = ctx.int("max_seq", 0, U16)
    if near:
        ctx.assume(sx.Or(mx >= U16 - 50, mx <= 50), "max_seq within 50 of the wrap")
    g.max_seq = mx
    pre = []
    for i in range(nmissing):
        back = ctx.int("missing%d_back" % i, 1, 128)  # distance behind max_seq
        for b in pre:
            ctx.assume(back != b)
        pre.append(back)
        g.missing.add((mx - back) & U16)
    ahead = ctx.int("ahead", -130, AHEAD_MAX)  # new packet relative to max_seq (negative = late)
    ctx.assume(ahead != 0, "not a duplicate of the highest packet")
    seq = (mx + ahead) & U16
    missed = g.add(RtpPacket(sequence_number=seq))
    ctx.reach("nack-added")
    new_max = sx.ite(ahead > 0, seq, mx)
    ctx.check(sx.eq(g.max_seq, new_max), "max-seq-tracks-the-highest")
    ctx.check(sx.Iff(missed, ahead > 1), "returns-true-iff-new-gaps-appeared")
    got = list(g.missing)
    ctx.check(len(got) <= 128, "missing-set-bounded-by-the-128-packet-history")
    # expected set, as distances behind the new max
    want = []
    adv = sx.ite(ahead > 0, ahead, 0)
    for back in pre:
        d = back + adv  # distance behind the new max
        keep = sx.And(d <= 128, sx.Not(sx.And(ahead < 0, back == -ahead)))
        want.append((d, keep))
    for k in range(1, AHEAD_MAX):  # newly skipped numbers: max+1 .. seq-1
        want.append((sx.ite(ahead > 0, ahead - k, 0), sx.And(ahead > k)))
    for x in got:
        dist = (new_max - x) & U16
        ctx.check(sx.And(dist >= 1, dist <= 128), "missing-only-inside-the-window-behind-max")
        ctx.check(sx.Or(*[sx.And(keep, dist == d) for d, keep in want]), "missing-contains-nothing-unexpected")
    for d, keep in want:
        ctx.check(sx.Implies(keep, sx.Or(*[((new_max - x) & U16) == d for x in got]) if got else False), "missing-contains-every-expected-number")
    ctx.observe("n", len(got))


def h_nack_jump(ctx, jump):
    """Targeted, concrete size: a jump of `jump` sequence numbers keeps the set bounded."""
    g = NackGenerator()
    mx = ctx.choice("max_seq", [0, 40000, 65535 - jump // 2, 65535])  # concrete: n^2 set comparisons
    g.max_seq = mx
    g.add(RtpPacket(sequence_number=(mx + jump) & U16))
    ctx.reach("jumped")
    ctx.check(len(g.missing) <= 128, "missing-set-bounded-after-a-large-jump")
    ctx.observe("n", len(g.missing))


# --------------------------------------------------------------------------------- sender retransmission
def _mk_sender(rtx, origin, npk):
    with Patch(sendmod, asyncio=StubAsyncio(_real_asyncio)):
        s = RTCRtpSender("video", _Tr())
    s._ssrc = SSRC
    s._rtx_ssrc = RTX_SSRC
    hist = sx.SymDict() if sx.active() else {}
    pk = []
    for i in range(npk):
        q = (origin + i) & U16
        p = RtpPacket(payload_type=96, sequence_number=q, timestamp=1000 + i, ssrc=SSRC, payload=bytes([0x10, i]), marker=i & 1)
        hist[q % 128] = p
        pk.append(p)
    s._RTCRtpSender__rtp_history = hist
    s._RTCRtpSender__rtx_payload_type = 97 if rtx else None
    s._RTCRtpSender__rtx_sequence_number = 65535
    return s, pk


def h_retransmit(ctx, rtx, nlost, wire=False):
    origin = ctx.int("origin", 0, U16)
    s, pk = _mk_sender(rtx, origin, 3)
    if wire:
        # the NACK travels as bytes: an ascending list (as NackGenerator builds it) starting up to
        # 20 before the history, successive numbers 1..40 apart (one bitmask spans 16)
        off = ctx.int("lost0_off", -20, 4)
        lost = [(origin + off) & U16]
        for i in range(1, nlost):
            off = off + ctx.int("lost%d_delta" % i, 1, 40)
            lost.append((origin + off) & U16)
        data = sx.to_bytes(RtcpRtpfbPacket(fmt=1, ssrc=RSSRC, media_ssrc=SSRC, lost=lost))
        for p in RtcpPacket.parse(data):
            sx.run(s._handle_rtcp_packet(p))
    else:
        lost = [(origin + ctx.int("lost%d_off" % i, -2, 130)) & U16 for i in range(nlost)]
        sx.run(s._handle_rtcp_packet(RtcpRtpfbPacket(fmt=1, ssrc=RSSRC, media_ssrc=SSRC, lost=lost)))
    ctx.reach("nack-handled")
    sent = [RtpPacket.parse(d) for d in s.transport.sent]
    # every listed number still in history is resent exactly once per listing, in order
    k = 0
    for x in lost:
        off = (x - origin) & U16
        in_hist = off <= 2
        if in_hist is True or (not isinstance(in_hist, bool) and bool(in_hist)):
            ctx.check(k < len(sent), "listed-packet-in-history-is-resent")
            if k < len(sent):
                r = sent[k]
                orig = pk[sx.concretize_int(off) if sx.active() else off]
                if rtx:
                    ctx.check(sx.And(sx.eq(r.payload_type, 97), sx.eq(r.ssrc, RTX_SSRC)), "rtx-payload-type-and-ssrc")
                    ctx.check(sx.eq(r.sequence_number, (65535 + k) & U16), "rtx-sequence-increments")
                    u = unwrap_rtx(r, payload_type=96, ssrc=SSRC)
                    ctx.check(sx.And(sx.eq(u.sequence_number, orig.sequence_number), sx.eq(u.payload, orig.payload), sx.eq(u.timestamp, orig.timestamp)), "rtx-carries-the-original-packet")
                else:
                    ctx.check(sx.And(sx.eq(r.sequence_number, orig.sequence_number), sx.eq(r.payload, orig.payload), sx.eq(r.ssrc, SSRC), sx.eq(r.payload_type, 96)), "verbatim-retransmission")
            k += 1
    ctx.check(len(sent) == k, "numbers-not-in-history-produce-nothing")
    ctx.observe("n", len(sent))


def h_rtx_clears_missing(ctx, rtx):
    """A lost packet that comes back (as RTX when negotiated, verbatim otherwise) is no longer
    missing: it is not requested again when the next gap is detected."""
    from aiortc.rtp import wrap_rtx

    r = _mk_receiver(rtx, upper=bool(rtx) and ctx.choice("rtx_codec_spelt_in_upper_case", [False, True]))
    nacks = []

    async def rec_nack(ssrc, lost):
        nacks.append(list(lost))

    async def no_pli(ssrc):
        pass

    r._send_rtcp_nack = rec_nack
    r._send_rtcp_pli = no_pli
    seq = ctx.int("seq_origin", 0, U16)

    def media(k, ts):
        p = RtpPacket(payload_type=96, sequence_number=(seq + k) & U16, timestamp=ts, ssrc=SSRC, marker=1)
        p.payload = Vp8Encoder._packetize(bytes([0xB0 + k] * 3), 100 + k)[0]
        return p

    sx.run(r._handle_rtp_packet(media(0, 1000), arrival_time_ms=0))
    sx.run(r._handle_rtp_packet(media(2, 7000), arrival_time_ms=10))  # seq+1 is missing now
    ctx.check(len(nacks) == 1 and len(nacks[0]) == 1 and bool(sx.eq(nacks[0][0], (seq + 1) & U16)), "lost-packet-is-requested")
    lost = media(1, 4000)
    back = wrap_rtx(lost, payload_type=97, sequence_number=ctx.int("rtx_seq", 0, U16), ssrc=RTX_SSRC) if rtx else lost
    sx.run(r._handle_rtp_packet(back, arrival_time_ms=20))
    ctx.reach("repair-arrived")
    missing = r._RTCRtpReceiver__nack_generator.missing
    ctx.check(not any(bool(sx.eq(m, (seq + 1) & U16)) for m in missing), "recovered-packet-is-no-longer-missing")
    sx.run(r._handle_rtp_packet(media(4, 13000), arrival_time_ms=30))  # a new gap: seq+3
    ctx.check(len(nacks) == 2, "new-gap-is-requested")
    if len(nacks) == 2:
        ctx.check(not any(bool(sx.eq(m, (seq + 1) & U16)) for m in nacks[1]), "recovered-packet-is-not-requested-again", repr(nacks[1]))
    ctx.observe("n", len(nacks))


def h_send_rtx(ctx, order):
    """RTCRtpSender.send(): the RTX payload type used for retransmissions is the rtx entry whose
    apt names the codec being sent (codecs[0]), whatever the order of the negotiated codec list."""
    from aiortc.rtcrtpparameters import RTCRtcpParameters, RTCRtpSendParameters

    pts = [ctx.int("pt%d" % i, 96, 127) for i in range(4)]
    for i in range(4):
        for j in range(i):
            ctx.assume(pts[i] != pts[j], "payload types are distinct")
    base0 = RTCRtpCodecParameters(mimeType="video/VP8", clockRate=90000, payloadType=pts[0])
    base1 = RTCRtpCodecParameters(mimeType="video/H264", clockRate=90000, payloadType=pts[1])
    rtx0 = RTCRtpCodecParameters(mimeType="video/rtx", clockRate=90000, payloadType=pts[2], parameters={"apt": pts[0]})
    rtx1 = RTCRtpCodecParameters(mimeType="video/rtx", clockRate=90000, payloadType=pts[3], parameters={"apt": pts[1]})
    pool = {"b1": base1, "x0": rtx0, "x1": rtx1}
    codecs = [base0] + [pool[k] for k in order]
    tr = _Tr()
    tr._register_rtp_sender = lambda sender, parameters: None
    stub = StubAsyncio(_real_asyncio)
    with Patch(sendmod, asyncio=stub):
        s = RTCRtpSender("video", tr)
        sx.run(s.send(RTCRtpSendParameters(codecs=codecs, rtcp=RTCRtcpParameters(cname="c", ssrc=SSRC), muxId="0")))
    for coro in stub.queue:
        coro.close()
    ctx.reach("send-configured")
    got = s._RTCRtpSender__rtx_payload_type
    if "x0" in order:
        ctx.check(sx.eq(got, pts[2]), "rtx-payload-type-is-the-one-whose-apt-names-the-sent-codec")
    else:
        ctx.check(got is None, "no-rtx-without-a-matching-apt")
    ctx.observe("has", got is not None)


# --------------------------------------------------------------------------------- closed loop
class _Track:
    kind = "video"

    def stop(self):
        pass


RTX_UPPER = RTCRtpCodecParameters(mimeType="video/RTX", clockRate=90000, payloadType=97, parameters={"apt": 96})


def _mk_receiver(rtx, upper=False):
    r = RTCRtpReceiver("video", _Tr())
    codecs = sx.SymDict() if sx.active() else {}
    codecs[96] = VP8
    if rtx:
        codecs[97] = RTX_UPPER if upper else RTX  # (codec names are case-insensitive)
    r._RTCRtpReceiver__codecs = codecs
    rmap = sx.SymDict() if sx.active() else {}
    if rtx:
        rmap[RTX_SSRC] = SSRC
    r._RTCRtpReceiver__rtx_ssrc = rmap

    class _NoEstimator:
        def add(self, **kw):
            return None

    r._RTCRtpReceiver__remote_bitrate_estimator = _NoEstimator()
    r._RTCRtpReceiver__decoder_thread = True  # frames are queued; the harness is the decoder
    r._set_rtcp_ssrc(RSSRC)
    return r


def h_loop(ctx, sizes, events, rtx, near):
    """Real sender and receiver joined by a solver-controlled network."""
    seq0 = ctx.int("seq_origin", U16 - 1, U16) if near else 1000
    ts0 = ctx.int("ts_origin", 0, U32)
    if near:
        ctx.assume(ts0 >= U32 - 3000, "timestamp origin just before the wrap")
    frames = [bytes([0xA0 + f] * n) for f, n in enumerate(sizes)]
    with Patch(vpx, PACKET_MAX=9), Patch(sendmod, random_sequence_number=lambda: seq0, random32=lambda: ts0), Patch(recvmod, clock=recvmod.clock):
        with Patch(sendmod, asyncio=StubAsyncio(_real_asyncio)):
            s = RTCRtpSender("video", _Tr())
        s._ssrc, s._rtx_ssrc = SSRC, RTX_SSRC
        s._RTCRtpSender__rtx_payload_type = 97 if rtx else None
        s._RTCRtpSender__track = _Track()
        todo = [RTCEncodedFrame(Vp8Encoder._packetize(fr, 100 + i), 3000 * i, None) for i, fr in enumerate(frames)]

        async def next_frame(codec):
            if not todo:
                raise _real_asyncio.CancelledError()
            return todo.pop(0)

        s._next_encoded_frame = next_frame
        sx.run(s._run_rtp(VP8))
        media = list(s.transport.sent)
        del s.transport.sent[:]
        ctx.check(len(media) == sum(len(Vp8Encoder._packetize(fr, 0)) for fr in frames), "one-datagram-per-payload")
        r = _mk_receiver(rtx)
        q = r._RTCRtpReceiver__decoder_queue
        wire = list(media)  # datagrams in flight towards the receiver
        frame_of = []
        for f, fr in enumerate(frames):
            frame_of += [f] * len(Vp8Encoder._packetize(fr, 0))
        start_frame = None
        plis = 0
        repair_lost = False  # a retransmission was dropped: the property's precondition no longer holds
        for step in range(events):
            opts = [("media", i) for i in range(min(len(wire), 4))]
            if r.transport.sent:
                opts.append(("rtcp", 0))
            if not opts:
                break
            kind, i = ctx.choice("ev%d" % step, opts)
            if kind == "media":
                mode = ctx.choice("mode%d" % step, ["deliver", "drop", "duplicate"])
                d = wire[i]
                if mode != "duplicate":
                    wire.pop(i)
                if mode == "drop" and not any(m is d for m in media):
                    repair_lost = True
                if mode != "drop":
                    if start_frame is None:
                        # the stream starts, for the receiver, with the first packet it sees
                        start_frame = [f for k, f in enumerate(frame_of) if media[k] is d][0]
                    sx.run(r._handle_rtp_packet(RtpPacket.parse(d), arrival_time_ms=step))
            else:
                d = r.transport.sent.pop(0)
                for p in RtcpPacket.parse(d):
                    if isinstance(p, RtcpPsfbPacket):
                        plis += 1
                    sx.run(s._handle_rtcp_packet(p))
                # retransmissions go onto the wire
                wire.extend(s.transport.sent)
                del s.transport.sent[:]
        ctx.reach("schedule-done")
        # loss-free suffix: everything pending gets through, in order
        def pump():
            nonlocal plis, start_frame
            for _ in range(40):
                if r.transport.sent:
                    d = r.transport.sent.pop(0)
                    for p in RtcpPacket.parse(d):
                        if isinstance(p, RtcpPsfbPacket):
                            plis += 1
                        sx.run(s._handle_rtcp_packet(p))
                    wire.extend(s.transport.sent)
                    del s.transport.sent[:]
                elif wire:
                    d = wire.pop(0)
                    if start_frame is None:
                        start_frame = [f for k, f in enumerate(frame_of) if media[k] is d][0]
                    sx.run(r._handle_rtp_packet(RtpPacket.parse(d), arrival_time_ms=100))
                else:
                    return

        pump()
        # traffic continues: a few more in-order single-packet frames (the buffer releases at most one
        # frame per arriving packet, and a frame only once the next one has begun)
        for j in range(len(frames) + 1):
            p = RtpPacket(payload_type=96, sequence_number=(seq0 + len(media) + j) & U16, timestamp=(ts0 + 3000 * (len(frames) + j)) & U32, ssrc=SSRC, marker=1)
            p.payload = Vp8Encoder._packetize(bytes([0xF0 + j] * 3), 200 + j)[0]
            s._RTCRtpSender__rtp_history[p.sequence_number % 128] = p
            sx.run(r._handle_rtp_packet(p, arrival_time_ms=200 + j))
            pump()
        ctx.reach("suffix-done")
        got = []
        while not q.empty():
            codec, fr = q.get()
            got.append(bytes(fr.data) if isinstance(fr.data, (bytes, bytearray)) else fr.data)
        got = [g for g in got if not (len(g) == 3 and g[0] >= 0xF0)]  # the flush frames
        # every decoded item is a sent frame (or, first after start / PLI, the tail of one), in order
        idx = -1
        for n, g in enumerate(got):
            match = None
            for j, fr in enumerate(frames):
                if j > idx and g == fr:
                    match = j
                    break
            if match is None:
                tail = [j for j, fr in enumerate(frames) if j > idx and len(g) < len(fr) and fr.endswith(g) and len(g) > 0]
                ctx.check(bool(tail) and (n == 0 or plis > 0), "decoder-input-is-a-whole-sent-frame", "item %d = %r" % (n, g))
                match = tail[0] if tail else idx
            idx = match
        ctx.check(len(got) <= len(frames), "no-frame-twice")
        if plis == 0 and start_frame is not None and not repair_lost:
            # every frame after the one the receiver first saw a packet of
            for j in range(start_frame + 1, len(frames)):
                ctx.check(frames[j] in got, "every-later-frame-reaches-the-decoder-once-losses-are-repaired-and-traffic-continues", "frame %d" % j)
        ctx.observe("got", len(got))
        ctx.observe("plis", plis)


ENC = [
    "aiortc.rtcrtpreceiver:NackGenerator.add",
    "aiortc.rtcrtpreceiver:NackGenerator.truncate",
    "aiortc.rtcrtpreceiver:RTCRtpReceiver._handle_rtp_packet",
    "aiortc.rtcrtpreceiver:RTCRtpReceiver._send_rtcp_nack",
    "aiortc.rtcrtpsender:RTCRtpSender._handle_rtcp_packet",
    "aiortc.rtcrtpsender:RTCRtpSender._retransmit",
    "aiortc.rtcrtpsender:RTCRtpSender._run_rtp",
    "aiortc.rtp:wrap_rtx",
    "aiortc.rtp:unwrap_rtx",
    "aiortc.rtp:RtcpRtpfbPacket.__bytes__",
    "aiortc.rtp:RtcpRtpfbPacket.parse",
    "aiortc.jitterbuffer:JitterBuffer.add",
    "aiortc.codecs.vpx:vp8_depayload",
    "aiortc.codecs.vpx:Vp8Encoder._packetize",
]
STUBS = [
    "DTLS transports -> datagram lists (no SRTP)",
    "track/encoder -> prepared VP8 payload lists produced by the real Vp8Encoder._packetize with PACKET_MAX patched to 9 bytes",
    "decoder thread never started: the harness reads the receiver's decoder queue",
    "remote bitrate estimator -> stub (C15)",
    "random_sequence_number / random32 -> solver-chosen origins",
]

HARNESSES = {
    "nack-step": Harness("nack-step", h_nack_step, lambda tier: [{"nmissing": n, "near": nr} for n in ((0, 1, 2) if tier == "quick" else (0, 1, 2, 3)) for nr in (False, True)], style="STEP", bounds="max_seq symbolic (also constrained near the wrap), <=2 (quick) / <=3 missing numbers anywhere in the 128-window, new packet from 130 behind to 8 ahead", encoded=ENC, stubs=STUBS, twin="nack-added", opts={"samples": 1}),
    "nack-jump": Harness("nack-jump", h_nack_jump, lambda tier: [{"jump": j} for j in ((129, 1000) if tier == "quick" else (129, 1000, 32767))], style="STEP (targeted, concrete size)", bounds="jumps of 129, 1000 (and 32767) sequence numbers from a symbolic max_seq", encoded=ENC, stubs=STUBS, twin="jumped", opts={"path_timeout_s": 300, "max_decisions": 200000}),
    "rtx-clears-missing": Harness("rtx-clears-missing", h_rtx_clears_missing, lambda tier: [{"rtx": x} for x in (True, False)], style="STEP", bounds="real RTCRtpReceiver: packets seq, seq+2, the repair of seq+1 (RTX or verbatim), seq+4; sequence origins symbolic (16 bit)", encoded=ENC, stubs=STUBS, twin="repair-arrived", opts={"samples": 1}),
    "send-rtx": Harness("send-rtx", h_send_rtx, lambda tier: [{"order": list(o)} for o in (("x0",), ("b1", "x1", "x0"), ("x1", "b1", "x0"), ("b1", "x1"), ("x0", "b1", "x1"))], style="STEP", bounds="negotiated codec lists VP8 + {H264, rtx(apt VP8), rtx(apt H264)} in 5 orders, all payload types symbolic 96..127 and distinct", encoded=ENC + ["aiortc.rtcrtpsender:RTCRtpSender.send"], stubs=STUBS, twin="send-configured", opts={"samples": 1}),
    "retransmit": Harness("retransmit", h_retransmit, lambda tier: [{"rtx": x, "nlost": n} for x in (False, True) for n in ((1, 2) if tier == "quick" else (1, 2, 3))] + [{"rtx": False, "nlost": n, "wire": True} for n in ((2,) if tier == "quick" else (2, 3))], style="STEP", bounds="history of 3 packets at a symbolic origin; NACK listing <=2 (quick) / <=3 numbers from 2 before to 130 after the origin; RTX on/off; plus the same NACK serialised and parsed (ascending list from 20 before the history, steps 1..40)", encoded=ENC, stubs=STUBS, twin="nack-handled", opts={"samples": 1}),
    "loop": Harness(
        "loop",
        h_loop,
        lambda tier: [{"sizes": s, "events": e, "rtx": x, "near": nr} for s in ([[5, 5, 5, 5], [7, 5, 5]] if tier == "quick" else [[5, 5, 5, 5], [7, 5, 5], [12, 5, 5, 5], [5, 7, 12, 5]]) for e in ((3,) if tier == "quick" else (4, 5)) for x in (False, True) for nr in (False, True)],
        style="BMC (closed loop)",
        bounds="3 frames of 1..2 packets through the real _run_rtp / _handle_rtp_packet / NACK / retransmission path; 3 (quick) / 4-5 solver-chosen network events {deliver, drop, duplicate a media datagram, deliver pending feedback}; then a loss-free suffix; sequence/timestamp origins symbolic in the near-wrap runs",
        encoded=ENC,
        stubs=STUBS,
        outside=["real SRTP, real encoder/decoder, pacing, audio path, frames of more than 2 packets"],
        twin="suffix-done",
        opts={"samples": 1},
    ),
}
