"""C04 (partial) - DTLS connects only to the fingerprinted peer; mirror-image SRTP keys.

The fingerprint policy, the gating in start() and the key/salt layout are executed symbolically on
a real RTCDtlsTransport whose OpenSSL / libsrtp collaborators are stubbed.  The handshake itself,
certificate parsing and SRTP encryption/authentication are C code and outside the claim.
"""
from __future__ import annotations

import asyncio as _real_asyncio

import aiortc.rtcdtlstransport as dtls
from aiortc.rtcdtlstransport import RTCDtlsFingerprint, RTCDtlsParameters, RTCDtlsTransport, SRTP_PROFILES

from sx import api as sx
from sx.runner import Harness

from .util import Patch, StubAsyncio

PROPERTY = "C04"
MODULES = ["aiortc.rtcdtlstransport", "aiortc.rtp"]
DEADLINE = {"quick": 300, "thorough": 1500}
ALGS = ["sha-256", "SHA-256", "Sha-384", "sha-512", "sha-1", "md5"]
SUPPORTED = {"sha-256", "sha-384", "sha-512"}
PROFILE_NAMES = [p.openssl_profile for p in SRTP_PROFILES]


class _SslError(Exception):
    pass


class _Conn:
    def __init__(self, env):
        self.env = env

    def set_accept_state(self):
        self.env.role_set = "server"

    def set_connect_state(self):
        self.env.role_set = "client"

    def do_handshake(self):
        if self.env.want_read > 0:
            self.env.want_read -= 1
            raise self.env.ssl.WantReadError()
        if not self.env.handshake_ok:
            raise self.env.ssl.Error("handshake failed")

    def get_peer_certificate(self, as_cryptography=False):
        return "peer-cert"

    def get_selected_srtp_profile(self):
        return self.env.selected_profile

    def export_keying_material(self, label, n):
        self.env.exported = n
        return self.env.keying(n)

    def bio_read(self, n):
        raise self.env.ssl.Error()

    def bio_write(self, data):
        pass

    def recv(self, n):
        # the record layer finishes the handshake inside SSL_read and may find an application
        # record that the peer put into the same datagram as its last flight
        if self.env.early_app:
            return b"early application data"
        raise self.env.ssl.Error()

    def DTLSv1_get_timeout(self):
        return None

    def send(self, data):
        self.env.app_sent.append(data)

    def shutdown(self):
        pass


class _Ssl:
    Error = _SslError

    class WantReadError(Exception):
        pass

    class ZeroReturnError(Exception):
        pass

    def __init__(self, env):
        self.env = env

    def Connection(self, ctx):
        return _Conn(self.env)


class _Policy:
    SSRC_ANY_INBOUND = 1
    SSRC_ANY_OUTBOUND = 2

    def __init__(self, key=None, ssrc_type=None, srtp_profile=None):
        self.key, self.ssrc_type, self.srtp_profile = key, ssrc_type, srtp_profile


class _Cert:
    def _create_ssl_context(self, srtp_profiles):
        return "ctx"

    def getFingerprints(self):
        return []


class _Ice:
    def __init__(self, role):
        self.role = role
        self.sent = []
        self.rx = []

    async def _send(self, data):
        self.sent.append(data)

    async def _recv(self):
        if self.rx:
            return self.rx.pop(0)
        raise ConnectionError


class _DataSink:
    def __init__(self):
        self.got = []

    async def _handle_data(self, data):
        self.got.append(data)


class Env:
    def __init__(self, ctx, role, handshake_ok, selected_profile, keying):
        self.handshake_ok = handshake_ok
        self.selected_profile = selected_profile
        self.keying = keying
        self.ssl = _Ssl(self)
        self.sessions = []
        self.app_sent = []
        self.digests = {}
        self.asyncio = StubAsyncio(_real_asyncio)
        self.role_set = None
        self.exported = None
        self.want_read = 0
        self.early_app = False
        env = self

        class Session:
            def __init__(self, policy):
                self.policy = policy
                env.sessions.append(self)

            def protect(self, data):
                return data

            def protect_rtcp(self, data):
                return data

        self.Session = Session

    def certificate_digest(self, cert, alg):
        return self.digests[alg]


def _mk_transport(env, ice_role, dtls_role):
    t = RTCDtlsTransport(_Ice(ice_role), [_Cert()])
    t._set_role(dtls_role)
    return t


def h_policy(ctx, nfp, algs):
    """Fingerprint policy + start() gating for a list of nfp fingerprints with the given algorithms."""
    handshake_ok = ctx.choice("handshake_ok", [True, False])
    prof = ctx.choice("selected_profile", PROFILE_NAMES + [b"SRTP_UNKNOWN"])
    env = Env(ctx, "controlling", handshake_ok, prof, lambda n: bytes(n))
    # per supported algorithm the real digest: 2 symbolic upper-case hex characters stand for it
    for a in sorted(SUPPORTED):
        d = ctx.str("digest_" + a, 2, 0x30, 0x46)
        if sx.active():
            for c in d.cps:
                ctx.assume(sx.Or(c <= 0x39, c >= 0x41), "digests are upper-case hexadecimal")
        else:
            ctx.assume(all(ch in "0123456789ABCDEF" for ch in d), "digests are upper-case hexadecimal")
        env.digests[a] = d
    fps = []
    for i in range(nfp):
        fps.append(RTCDtlsFingerprint(algorithm=ALGS[algs[i]], value=ctx.str("fp%d" % i, 2, 0x30, 0x7A)))
    with Patch(dtls, SSL=env.ssl, Policy=_Policy, Session=env.Session, certificate_digest=env.certificate_digest, asyncio=env.asyncio):
        t = _mk_transport(env, "controlling", ctx.choice("role", ["auto", "client", "server"]))
        # the handshake may need one more datagram from the peer, and that datagram may carry an
        # application record behind the peer's last flight
        env.want_read = ctx.choice("handshake_waits_for_a_datagram", [0, 1])
        if env.want_read:
            env.early_app = ctx.choice("application_record_in_the_last_flight", [False, True])
            t.transport.rx.append(bytes([22]) + bytes(12))
        sink = _DataSink()
        t._register_data_receiver(sink)
        sx.run(t.start(RTCDtlsParameters(fingerprints=fps)))
        ctx.reach("started")
        # reference policy, transcribed from the property
        supported = [f for f in fps if f.algorithm.lower() in SUPPORTED]
        all_match = True
        for f in supported:
            all_match = sx.And(all_match, sx.eq(f.value.upper(), env.digests[f.algorithm.lower()]))
        known_profile = prof in PROFILE_NAMES
        want_connected = sx.And(handshake_ok, len(supported) >= 1, all_match, known_profile)
        ctx.check(sx.Iff(t.state == "connected", want_connected), "connected-iff-fingerprints-and-profile-valid")
        ctx.check(t.state in ("connected", "failed"), "ends-connected-or-failed")
        if sink.got:
            ctx.check(want_connected, "application-data-handed-over-only-from-a-validated-peer")
        if t.state == "failed":
            ctx.check(len(env.sessions) == 0, "no-srtp-session-when-not-connected")
            ctx.check(len(env.asyncio.queue) == 0 and t._task is None, "no-data-pump-when-failed")
            for fn, arg in ((t._send_data, b"x"), (t._send_rtp, b"\x80\x60" + bytes(10))):
                try:
                    sx.run(fn(arg))
                    ctx.check(False, "failed-transport-hands-over-nothing")
                except ConnectionError:
                    pass
            ctx.check(not env.app_sent and not t.transport.sent, "failed-transport-sent-nothing")
        else:
            ctx.check(len(env.sessions) == 2, "rx-and-tx-srtp-sessions-created")
            ctx.check(len(env.asyncio.queue) == 1, "data-pump-scheduled")
        for c in env.asyncio.queue:
            c.close()
        ctx.observe("state", t.state)


class _X509:
    """Stand-in for a cryptography certificate: serial number and per-algorithm fingerprint bytes."""

    def __init__(self, serial, fp):
        self.serial_number, self._fp = serial, fp
        self.subject = self.issuer = "CN=x"

    def fingerprint(self, alg):
        return self

    def hex(self):
        return self._fp


def _hex(ctx, name):
    """bytes.hex() of a symbolic 2-byte fingerprint: 4 characters from 0-9a-f."""
    d = ctx.str(name, 4, 0x30, 0x66)
    if sx.active():
        for c in d.cps:
            ctx.assume(sx.Or(c <= 0x39, c >= 0x61), "lower-case hexadecimal")
    else:
        ctx.assume(all(ch in "0123456789abcdef" for ch in d), "lower-case hexadecimal")
    return d


def h_digest(ctx, alg):
    """certificate_digest is a function of the certificate's content: the digest reported for a
    second certificate is its own fingerprint, whatever was asked before (same or different
    serial number, subject and issuer; same algorithm)."""
    fa, fb = _hex(ctx, "fingerprint_a_hex"), _hex(ctx, "fingerprint_b_hex")
    same_serial = ctx.choice("same_serial_number", [True, False])
    a = _X509(7, fa)
    b = _X509(7 if same_serial else 8, fb)
    da = dtls.certificate_digest(a, alg)
    db = dtls.certificate_digest(b, alg)
    da2 = dtls.certificate_digest(a, alg)
    ctx.reach("digests")

    def want(fp):
        h = fp.upper()
        return h[0:2] + ":" + h[2:4]

    ctx.check(sx.eq(da, want(fa)), "digest-is-the-colon-separated-upper-case-fingerprint")
    ctx.check(sx.eq(db, want(fb)), "digest-of-a-second-certificate-is-its-own")
    ctx.check(sx.eq(da2, want(fa)), "digest-of-the-first-certificate-unchanged")
    ctx.observe("d", (da, db))


def h_keys(ctx, pidx):
    """Both roles with the same exported keying material derive mirror-image keys (RFC 5764 4.2)."""
    prof = SRTP_PROFILES[pidx]
    n = 2 * (prof.key_length + prof.salt_length)
    material = ctx.bytes("keying", n)
    keys = {}
    for role in ("client", "server"):
        env = Env(ctx, "controlling", True, prof.openssl_profile, lambda k: material[:k])
        with Patch(dtls, SSL=env.ssl, Policy=_Policy, Session=env.Session, certificate_digest=env.certificate_digest, asyncio=env.asyncio):
            t = _mk_transport(env, "controlling", role)
            t._ssl = env.ssl.Connection(None)
            t._setup_srtp()
        ctx.check(env.exported == n, "exports-2x(key+salt)-bytes")
        ctx.check(len(env.sessions) == 2, "two-sessions")
        rx = [s for s in env.sessions if s.policy.ssrc_type == _Policy.SSRC_ANY_INBOUND][0].policy.key
        tx = [s for s in env.sessions if s.policy.ssrc_type == _Policy.SSRC_ANY_OUTBOUND][0].policy.key
        keys[role] = (rx, tx)
        ctx.check(len(rx) == prof.key_length + prof.salt_length and len(tx) == len(rx), "key-plus-salt-length")
    ctx.reach("keys-derived")
    ctx.check(sx.eq(keys["client"][1], keys["server"][0]), "client-tx-equals-server-rx")
    ctx.check(sx.eq(keys["server"][1], keys["client"][0]), "server-tx-equals-client-rx")
    kl, sl = prof.key_length, prof.salt_length
    ck, sk, cs, ss = material[0:kl], material[kl : 2 * kl], material[2 * kl : 2 * kl + sl], material[2 * kl + sl : 2 * kl + 2 * sl]
    ctx.check(sx.eq(keys["client"][1], ck + cs), "client-write-key-is-first-key-and-first-salt")
    ctx.check(sx.eq(keys["server"][1], sk + ss), "server-write-key-is-second-key-and-second-salt")
    ctx.observe("n", n)


class _ReplaySession:
    """libsrtp session stand-in with its sender-side replay database: protect() of a packet whose
    sequence number lies window_size or more behind the highest one protected so far fails
    ('replay check failed (index too old)'); a repeat inside the window needs allow_repeat_tx.
    The window is 128 packets unless the policy says otherwise."""

    sessions = []

    class Error(Exception):
        pass

    def __init__(self, policy):
        self.policy = policy
        self.highest = None
        self.seen = []
        _ReplaySession.sessions.append(self)

    def protect(self, data):
        seq = (data[2] << 8) | data[3]
        window = getattr(self.policy, "window_size", None) or 128
        if self.highest is not None:
            behind = (self.highest - seq) & 0xFFFF
            if behind < 0x8000:
                if behind >= window:
                    raise _ReplaySession.Error("replay check failed (index too old)")
                if any(bool(s == seq) for s in self.seen) and not getattr(self.policy, "allow_repeat_tx", False):
                    raise _ReplaySession.Error("replay check failed (bad index)")
            else:
                self.highest = seq
        else:
            self.highest = seq
        self.seen.append(seq)
        return data

    def protect_rtcp(self, data):
        return data


def h_srtp_window(ctx, role, pidx):
    """After key setup, a media packet up to 1023 sequence numbers behind the newest one sent
    (a retransmission, a late first send, across the 16-bit wrap) can still be sent: 'every RTP
    packet sent by one side is received by the other'."""
    prof = SRTP_PROFILES[pidx]
    n = 2 * (prof.key_length + prof.salt_length)
    env = Env(ctx, "controlling", True, prof.openssl_profile, lambda k: bytes(k))
    _ReplaySession.sessions = []
    with Patch(dtls, SSL=env.ssl, Policy=_Policy, Session=_ReplaySession, certificate_digest=env.certificate_digest, asyncio=env.asyncio):
        t = _mk_transport(env, "controlling", role)
        t._ssl = env.ssl.Connection(None)
        t._setup_srtp()
        t._set_state(dtls.State.CONNECTED)
        hi = ctx.int("newest_seq", 0, 0xFFFF)
        behind = ctx.int("behind", 0, 1023)
        for seq in (hi, (hi - behind) & 0xFFFF):
            pkt = sx.mkbytes([0x80, 96, seq >> 8, seq & 0xFF] + [0] * 8)
            sx.run(t._send_rtp(pkt))
    ctx.reach("late-packet-sent")
    ctx.check(len(t.transport.sent) == 2, "both-packets-reach-the-wire")
    ctx.observe("n", len(t.transport.sent))


def h_ssl_profiles(ctx):
    """A certificate shared by two transports with different SRTP profile preference lists: each
    transport's DTLS context offers exactly its own list, in its own order."""

    class _Ctx:
        made = []

        def __init__(self, method):
            self.srtp = None
            _Ctx.made.append(self)

        def set_verify(self, *a):
            pass

        def use_certificate(self, c):
            pass

        def use_privatekey(self, k):
            pass

        def set_cipher_list(self, c):
            pass

        def set_tlsext_use_srtp(self, profiles):
            self.srtp = profiles

    class _SslMod:
        Context = _Ctx
        DTLS_METHOD = 1
        VERIFY_PEER = 1
        VERIFY_FAIL_IF_NO_PEER_CERT = 2

    _Ctx.made = []
    orders = [[0], [1], [2], [0, 1], [1, 0], [2, 0, 1], [0, 1, 2], [1, 2]]
    l1 = ctx.choice("first_list", orders)
    l2 = ctx.choice("second_list", orders)
    cert = dtls.RTCCertificate(key="key", cert="cert")
    with Patch(dtls, SSL=_SslMod):
        c1 = cert._create_ssl_context([SRTP_PROFILES[i] for i in l1])
        c2 = cert._create_ssl_context([SRTP_PROFILES[i] for i in l2])
    ctx.reach("contexts-created")
    want1 = b":".join(SRTP_PROFILES[i].openssl_profile for i in l1)
    want2 = b":".join(SRTP_PROFILES[i].openssl_profile for i in l2)
    ctx.check(c1.srtp == want1, "first-context-offers-its-own-profile-list")
    ctx.check(c2.srtp == want2, "second-context-offers-its-own-profile-list", "%r instead of %r" % (c2.srtp, want2))
    ctx.observe("n", len(_Ctx.made))


def h_demux(ctx, connected, n=12):
    """_recv_next on one datagram with symbolic leading bytes: RFC 7983 demultiplexing.  Every
    datagram whose first byte is 128..191 reaches SRTP unprotect and then the RTP or RTCP handler
    (RTCP for packet types 200..207, RTP outside 192..223), 20..63 goes to DTLS, nothing else is delivered."""
    env = Env(ctx, "controlling", True, PROFILE_NAMES[0], lambda k: bytes(k))
    with Patch(dtls, SSL=env.ssl, Policy=_Policy, Session=env.Session, certificate_digest=env.certificate_digest, asyncio=env.asyncio):
        t = _mk_transport(env, "controlling", "client")
        t._ssl = env.ssl.Connection(None)
        got = []

        class Rx:
            def unprotect(self, data):
                got.append("srtp")
                return data

            def unprotect_rtcp(self, data):
                got.append("srtcp")
                return data

        async def rtp(data, arrival_time_ms):
            got.append("rtp")

        async def rtcp(data):
            got.append("rtcp")

        async def no_write():
            pass

        t._handle_rtp_data = rtp
        t._handle_rtcp_data = rtcp
        t._write_ssl = no_write
        t._ssl.recv = lambda n: got.append("dtls") or b""
        if connected:
            t._rx_srtp = Rx()
            t.encrypted = True
        b0 = ctx.int("b0", 0, 255)
        b1 = ctx.int("b1", 0, 255)
        data = sx.mkbytes(([b0, b1] + [0] * 10)[:n])  # n = 0 / 1: an empty or one-byte datagram

        async def recv():
            return data

        t.transport._recv = recv
        sx.run(t._recv_next())
    ctx.reach("demuxed")
    if n < 2:
        # (no claim about where a runt goes: libsrtp / the RTP parser reject it further down; the
        # claim is that _recv_next itself returns)
        ctx.check(n == 1 or got == [], "empty-datagram-is-dropped", repr(got))
        ctx.observe("got", got)
        return
    is_media = sx.And(b0 >= 128, b0 <= 191)
    is_dtls = sx.And(b0 >= 20, b0 <= 63)
    # second byte: 200..207 are the RTCP packet types in use, < 192 or > 223 is unambiguously RTP
    # (RFC 5761); the rest of 192..223 is the ambiguous zone where either classification is accepted
    surely_rtcp = sx.And(b1 >= 200, b1 <= 207)
    surely_rtp = sx.Or(b1 < 192, b1 > 223)
    if connected:
        ctx.check(sx.Implies(sx.And(is_media, surely_rtcp), got == ["srtcp", "rtcp"]), "rtcp-datagram-is-unprotected-and-delivered")
        ctx.check(sx.Implies(sx.And(is_media, surely_rtp), got == ["srtp", "rtp"]), "rtp-datagram-is-unprotected-and-delivered")
        ctx.check(sx.Implies(is_media, got == ["srtcp", "rtcp"] or got == ["srtp", "rtp"]), "media-datagram-is-delivered-to-one-handler")
        ctx.check(sx.Implies(sx.Not(is_media), "rtp" not in got and "rtcp" not in got), "only-media-datagrams-reach-the-media-handlers")
    else:
        ctx.check(sx.Implies(is_media, got == []), "no-media-before-srtp-keys-exist")
    ctx.check(sx.Iff(is_dtls, got == ["dtls"]), "dtls-record-goes-to-the-dtls-engine")
    ctx.check(sx.Implies(sx.Not(sx.Or(is_media, is_dtls)), got == []), "other-datagrams-are-dropped")
    ctx.observe("got", got)


def _policy_jobs(tier):
    import itertools

    jobs = []  # (an empty fingerprint list trips an API-misuse assertion in start(); not part of the claim)
    for n in (1, 2) if tier == "quick" else (1, 2, 3):
        for algs in itertools.product(range(len(ALGS)), repeat=n):
            if tier == "quick" and n == 2 and algs[0] > algs[1]:
                continue
            if n == 3 and not (algs[0] <= algs[1] <= algs[2]):
                continue
            jobs.append({"nfp": n, "algs": list(algs)})
    return jobs


ENC = [
    "aiortc.rtcdtlstransport:RTCDtlsTransport.start",
    "aiortc.rtcdtlstransport:RTCDtlsTransport._do_handshake",
    "aiortc.rtcdtlstransport:RTCDtlsTransport._validate_peer_identity",
    "aiortc.rtcdtlstransport:RTCDtlsTransport._setup_srtp",
    "aiortc.rtcdtlstransport:SRTPProtectionProfile.get_key_and_salt",
    "aiortc.rtcdtlstransport:RTCDtlsTransport._send_data",
    "aiortc.rtcdtlstransport:RTCDtlsTransport._send_rtp",
    "aiortc.rtcdtlstransport:RTCDtlsTransport._set_state",
    "aiortc.rtcdtlstransport:RTCDtlsTransport._recv_next",
]
STUBS = [
    "OpenSSL.SSL -> stub connection: handshake succeeds or raises SSL.Error by a solver-chosen flag, optionally after one WantReadError round whose datagram may make SSL_read return an application record; selected SRTP profile solver-chosen among the three known names and an unknown one; export_keying_material -> symbolic bytes",
    "certificate_digest -> per-algorithm symbolic 2-character upper-case hex string standing for the digest",
    "pylibsrtp Policy / Session -> recorders",
    "asyncio.ensure_future -> queue (the data pump is never run)",
]
OUT = ["the DTLS handshake, certificate parsing, SRTP encryption/authentication (OpenSSL, libsrtp): 'packets altered in transit are discarded' is not claimed"]

HARNESSES = {
    "ssl-profiles": Harness("ssl-profiles", h_ssl_profiles, lambda tier: [{}], style="BMC over configurations", bounds="one certificate, two DTLS contexts with solver-chosen SRTP profile lists from 8 subsets/orders of the three profiles", encoded=["aiortc.rtcdtlstransport:RTCCertificate._create_ssl_context"], stubs=["OpenSSL.SSL.Context -> recorder"], outside=OUT, twin="contexts-created", opts={"samples": 1}),
    "srtp-window": Harness("srtp-window", h_srtp_window, lambda tier: [{"role": r, "pidx": p} for r in ("client", "server") for p in ((0,) if tier == "quick" else range(len(SRTP_PROFILES)))], style="STEP", bounds="newest sequence number symbolic (16 bit), a second packet 0..1023 behind it (also across the wrap); both roles, profile 0 (quick) / every profile", encoded=["aiortc.rtcdtlstransport:RTCDtlsTransport._setup_srtp", "aiortc.rtcdtlstransport:RTCDtlsTransport._send_rtp"], stubs=STUBS + ["pylibsrtp.Session -> model of libsrtp's sender-side replay window (too-old check against policy.window_size, default 128; repeats need allow_repeat_tx)"], outside=OUT, twin="late-packet-sent", opts={"samples": 1}),
    "demux": Harness("demux", h_demux, lambda tier: [{"connected": c} for c in (True, False)] + [{"connected": True, "n": n} for n in (0, 1)], style="STEP", bounds="one datagram, first two bytes symbolic (all 65536 values), transport with / without SRTP sessions; plus an empty and a one-byte datagram", encoded=["aiortc.rtcdtlstransport:RTCDtlsTransport._recv_next", "aiortc.rtp:is_rtcp"], stubs=["SRTP session -> identity recorder; DTLS engine -> recorder; RTP/RTCP handlers -> recorders"], outside=["SRTP authentication itself (libsrtp)"], twin="demuxed", opts={"samples": 1}),
    "rtcp-delivery": Harness("rtcp-delivery", lambda ctx, **kw: __import__("harness.c12_router", fromlist=["h_rtcp_wire"]).h_rtcp_wire(ctx, **kw), lambda tier: [{"form": f} for f in ("rr-bye-reason", "unroutable-rr-then-nack", "sdes-then-bye")], style="STEP", bounds="one decrypted compound RTCP datagram in three forms (RR + BYE with reason text; RR about an unknown SSRC then NACK; SDES then BYE), one sender and two receivers with symbolic SSRCs: every packet of the datagram reaches the endpoints it reports on", encoded=["aiortc.rtcdtlstransport:RTCDtlsTransport._handle_rtcp_data", "aiortc.rtcdtlstransport:RtpRouter.route_rtcp", "aiortc.rtp:RtcpPacket.parse"], outside=OUT, twin="wire-dispatched", opts={"samples": 1}),
    "digest": Harness("digest", h_digest, lambda tier: [{"alg": a} for a in sorted(SUPPORTED)], style="REL", bounds="two stand-in certificates with symbolic 2-byte fingerprints (as 4 hex characters) and equal or different serial numbers, digests requested a, b, a", encoded=["aiortc.rtcdtlstransport:certificate_digest"], stubs=["cryptography x509.Certificate -> stand-in with serial_number / fingerprint()"], outside=["the hash computation itself (cryptography / OpenSSL)"], twin="digests", opts={"samples": 1}),
    "policy": Harness("policy", h_policy, _policy_jobs, style="STEP", bounds="fingerprint lists of 0..2 (quick) / 0..3 entries, algorithm from {sha-256, SHA-256, Sha-384, sha-512, sha-1, md5}, values 2 symbolic characters 0x30..0x7A (any case, equal or not to the digest), handshake ok/failed, 4 SRTP profile outcomes, DTLS role auto/client/server", encoded=ENC, stubs=STUBS, outside=OUT, twin="started", opts={"samples": 1}),
    "keys": Harness("keys", h_keys, lambda tier: [{"pidx": i} for i in range(len(SRTP_PROFILES))], style="RT", bounds="every available SRTP profile, both roles, fully symbolic keying material", encoded=ENC, stubs=STUBS, outside=OUT, twin="keys-derived"),
}
