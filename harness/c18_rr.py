"""C18 - RTCP receiver reports: loss / jitter figures per RFC 3550 that always fit the wire."""
from __future__ import annotations

import asyncio

import aiortc.rtcrtpreceiver as recv
from aiortc.rtcrtpreceiver import RTCRtpReceiver, StreamStatistics
from aiortc.rtp import RtcpPacket, RtcpRrPacket, RtpPacket

from sx import api as sx
from sx.runner import Harness

from .util import Patch

PROPERTY = "C18"
MODULES = ["aiortc.rtcrtpreceiver", "aiortc.rtp", "aiortc.utils"]
DEADLINE = {"quick": 300, "thorough": 1500}
U16, U32 = 0xFFFF, 0xFFFFFFFF
PL_MIN, PL_MAX = -(1 << 23), (1 << 23) - 1


class _Ticks:
    def __init__(self, v):
        self.v = v

    def __int__(self):
        return self.v

    def sx_int(self):
        return self.v


class _Now:
    def __init__(self, v):
        self.v = v

    def __mul__(self, clockrate):
        return _Ticks(self.v)

    __rmul__ = __mul__


class ClockStub:
    """`time` whose time()*clockrate is an arbitrary integer arrival clock."""

    def __init__(self):
        self.now = 0

    def time(self):
        return _Now(self.now)


def _sdiff32(a, b):
    """(a - b) mod 2^32 as a signed 32-bit number."""
    d = (a - b) & U32
    return sx.ite(d >= 0x80000000, d - (1 << 32), d)


def _abs(x):
    return sx.ite(x < 0, -x, x)


def _clamp(x):
    return sx.ite(x > PL_MAX, PL_MAX, sx.ite(x < PL_MIN, PL_MIN, x))


def _fraction(expected_interval, received_interval):
    lost = expected_interval - received_interval
    if isinstance(expected_interval, int) and expected_interval == 0:
        return 0
    q = (lost << 8) // sx.ite(expected_interval == 0, 1, expected_interval)
    return sx.ite(sx.Or(expected_interval == 0, lost <= 0), 0, q)


def _sym_state(ctx, clockrate=90000):
    """Arbitrary statistics state satisfying the representation invariant."""
    s = StreamStatistics(clockrate)
    s.base_seq = ctx.int("base", 0, U16)
    s.max_seq = ctx.int("max", 0, U16)
    s.cycles = ctx.int("cycles16", 0, 17) << 16
    s.packets_received = ctx.int("received", 1, 1 << 24)
    s._jitter_q4 = ctx.int("jq4", 0, (1 << 40) - 1)
    s._last_arrival = ctx.int("last_arrival", 0, (1 << 44) - 1)
    s._last_timestamp = ctx.int("last_ts", 0, U32)
    s._expected_prior = ctx.int("exp_prior", 0, 1 << 25)
    s._received_prior = ctx.int("rec_prior", 0, 1 << 24)
    expected = s.cycles + s.max_seq - s.base_seq + 1
    ctx.assume(expected >= 1, "Inv: expected >= 1")
    ctx.assume(s._expected_prior <= expected, "Inv: expected_prior <= expected")
    ctx.assume(s._received_prior <= s.packets_received, "Inv: received_prior <= received")
    ctx.assume(
        sx.Implies(expected > s._expected_prior, s.packets_received > s._received_prior),
        "Inv: expected grew since the last report => a packet was received since",
    )
    return s


def h_step_add(ctx):
    s = _sym_state(ctx)
    pre = dict(
        base=s.base_seq, max=s.max_seq, cycles=s.cycles, received=s.packets_received, jq4=s._jitter_q4, la=s._last_arrival, lt=s._last_timestamp
    )
    seq = ctx.int("seq", 0, U16)
    ts = ctx.int("ts", 0, U32)
    arrival = ctx.int("arrival", 0, (1 << 44) - 1)
    fwd = (seq - pre["max"]) & U16
    ctx.assume(fwd != 0x8000, "packet is not exactly half the sequence space away from the highest one")
    clock = ClockStub()
    clock.now = arrival
    with Patch(recv, time=clock):
        s.add(RtpPacket(sequence_number=seq, timestamp=ts))
    ctx.reach("added")
    in_order = sx.And(fwd != 0, fwd < 0x8000)
    ctx.check(s.packets_received == pre["received"] + 1, "received-count-plus-one")
    ctx.check(s.base_seq == pre["base"], "base-unchanged")
    ext_pre = pre["cycles"] + pre["max"]
    ext_post = s.cycles + s.max_seq
    ctx.check(sx.And(s.max_seq >= 0, s.max_seq <= U16, (s.cycles & U16) == 0), "max-seq-16-bit-cycles-multiple")
    ctx.check(sx.Implies(in_order, ext_post == ext_pre + fwd), "extended-highest-advances-by-forward-distance")
    ctx.check(sx.Implies(sx.Not(in_order), ext_post == ext_pre), "extended-highest-unchanged-when-not-in-order")
    ctx.check(sx.Implies(in_order, s.max_seq == seq), "max-seq-is-new-seq")
    # jitter: A.8 over in-order packets that begin a new timestamp, timestamp diffs modulo 2^32
    new_ts = sx.And(in_order, ts != pre["lt"])
    d = _abs((arrival - pre["la"]) - _sdiff32(ts, pre["lt"]))
    want = pre["jq4"] + d - ((pre["jq4"] + 8) >> 4)
    ctx.check(sx.Implies(new_ts, s._jitter_q4 == want), "jitter-recurrence-A8-mod-2^32")
    ctx.check(sx.Implies(sx.Not(new_ts), s._jitter_q4 == pre["jq4"]), "jitter-unchanged-otherwise")
    ctx.check(sx.Implies(in_order, sx.And(s._last_arrival == arrival, s._last_timestamp == ts)), "transit-reference-updated")
    ctx.observe("state", [s.max_seq, s.cycles, s.packets_received, s._jitter_q4])


class _Transport:
    state = "connected"
    _stats_id = "t"

    def __init__(self):
        self.sent = []

    async def _send_rtp(self, data):
        self.sent.append(data)

    def _get_stats(self):
        return {}


class _AsyncioStub:
    """asyncio whose sleep() returns once and then cancels (one iteration of _run_rtcp)."""

    CancelledError = asyncio.CancelledError
    Event = asyncio.Event

    def __init__(self):
        self.n = 0

    async def sleep(self, delay):
        self.n += 1
        if self.n > 1:
            raise asyncio.CancelledError()


class _Random:
    @staticmethod
    def random():
        return 0.5


def h_step_report(ctx):
    """One report generated by the real _run_rtcp from an arbitrary invariant-satisfying state."""
    s = _sym_state(ctx)
    tr = _Transport()
    r = RTCRtpReceiver("video", tr)
    ssrc = ctx.int("ssrc", 0, U32)
    rssrc = ctx.int("rtcp_ssrc", 0, U32)
    streams = sx.SymDict() if sx.active() else {}
    streams[ssrc] = s
    r._RTCRtpReceiver__remote_streams = streams
    r._set_rtcp_ssrc(rssrc)
    expected = s.cycles + s.max_seq - s.base_seq + 1
    want_lost = _clamp(expected - s.packets_received)
    want_fraction = _fraction(expected - s._expected_prior, s.packets_received - s._received_prior)
    want_highest = (s.cycles + s.max_seq) & U32
    want_jitter = s._jitter_q4 >> 4
    # last sender report: none, or one seen `elapsed` ms ago on a wall clock that may also have
    # stepped backwards or stood still for days
    have_sr = bool(ctx.bool("have_sr"))
    lsr = ctx.int("lsr", 0, U32)
    elapsed_ms = ctx.int("elapsed_ms", -(10**6), 1 << 40)
    if have_sr:
        lsrs = sx.SymDict() if sx.active() else {}
        lsrs[ssrc] = lsr
        times = sx.SymDict() if sx.active() else {}
        times[ssrc] = 0
        r._RTCRtpReceiver__lsr = lsrs
        r._RTCRtpReceiver__lsr_time = times

    class _Time:
        @staticmethod
        def time():
            return elapsed_ms / 1000

    stub = _AsyncioStub()
    with Patch(recv, asyncio=stub, random=_Random(), time=_Time):
        sx.run(r._run_rtcp())  # an escaping exception kills the RTCP task: violation
    ctx.reach("rtcp-iteration-done")
    ctx.check(r._RTCRtpReceiver__rtcp_exited.is_set(), "rtcp-task-exit-flag-set")
    ctx.check(len(tr.sent) == 1, "one-report-sent")
    pk = RtcpPacket.parse(tr.sent[0])
    ctx.check(len(pk) == 1 and isinstance(pk[0], RtcpRrPacket), "is-receiver-report")
    rr = pk[0]
    ctx.check(sx.eq(rr.ssrc, rssrc), "rr-sender-ssrc")
    ctx.check(len(rr.reports) == 1, "one-report-block")
    rep = rr.reports[0]
    ctx.check(sx.eq(rep.ssrc, ssrc), "report-ssrc")
    ctx.check(sx.eq(rep.packets_lost, want_lost), "cumulative-lost-clamped")
    ctx.check(sx.eq(rep.fraction_lost, want_fraction), "fraction-lost-A3")
    ctx.check(sx.eq(rep.highest_sequence, want_highest), "extended-highest-includes-cycles")
    ctx.check(sx.Implies(want_jitter <= U32, sx.eq(rep.jitter, want_jitter)), "jitter-reported")
    if have_sr:
        in_range = sx.And(elapsed_ms > 0, elapsed_ms < 65536000)
        ctx.check(sx.eq(rep.lsr, lsr), "lsr-echoed")
        ctx.check(sx.eq(rep.dlsr, sx.ite(in_range, (elapsed_ms * 65536) // 1000, 0)), "dlsr-is-delay-in-1/65536-s-or-zero-when-not-representable")
    else:
        ctx.check(sx.And(sx.eq(rep.lsr, 0), sx.eq(rep.dlsr, 0)), "no-sr-seen-reports-zero-lsr-dlsr")
    ctx.check(sx.And(s._expected_prior == expected, s._received_prior == s.packets_received), "interval-baseline-advanced")
    ctx.observe("report", [rep.fraction_lost, rep.packets_lost, rep.highest_sequence, rep.jitter])


def h_many_streams(ctx, n):
    """A receiver that has seen n SSRCs (an RTCP report packet holds at most 31 blocks): one
    _run_rtcp iteration must still build valid receiver reports covering every stream once."""
    tr = _Transport()
    r = RTCRtpReceiver("video", tr)
    rssrc = ctx.int("rtcp_ssrc", 0, U32)
    streams = {}
    for i in range(n):  # concrete SSRCs: n symbolic dictionary keys would cost n^2 comparisons
        s = StreamStatistics(90000)
        s.base_seq, s.max_seq, s.cycles, s.packets_received = 10, 10 + i, 0, i + 1
        streams[1000 + i] = s
    r._RTCRtpReceiver__remote_streams = streams
    r._set_rtcp_ssrc(rssrc)
    stub = _AsyncioStub()
    with Patch(recv, asyncio=stub, random=_Random()):
        sx.run(r._run_rtcp())
    ctx.reach("many-streams-reported")
    seen = []
    for d in tr.sent:
        for pk in RtcpPacket.parse(d):  # must parse
            ctx.check(isinstance(pk, RtcpRrPacket), "is-receiver-report")
            ctx.check(len(pk.reports) <= 31, "at-most-31-report-blocks-per-packet")
            seen += [rep.ssrc for rep in pk.reports]
    want = sorted(streams.keys())
    ctx.check(sorted(seen) == want, "every-stream-reported-exactly-once", "%d reported, %d streams" % (len(seen), len(want)))
    ctx.observe("n", len(seen))


def h_receiver_rtx_stats(ctx, order):
    """Per-SSRC counting at the receiver: a retransmission arriving on the RTX SSRC (also an empty
    RTX padding probe) is counted for the RTX SSRC, never for the media SSRC it repairs."""
    from aiortc.rtp import wrap_rtx

    from .c11_nackrtx import RTX_SSRC, SSRC, _mk_receiver

    r = _mk_receiver(True)

    async def no_rtcp(*a, **kw):
        pass

    r._send_rtcp_nack = no_rtcp
    r._send_rtcp_pli = no_rtcp
    seq = ctx.int("media_seq", 0, 0xFFFF)
    rseq = ctx.int("rtx_seq", 0, 0xFFFF)
    media = RtpPacket(payload_type=96, sequence_number=seq, timestamp=1000, ssrc=SSRC, payload=b"\x10\x00\x01\x02", marker=1)
    lost = RtpPacket(payload_type=96, sequence_number=(seq + 1) & 0xFFFF, timestamp=4000, ssrc=SSRC, payload=b"\x10\x00\x03\x04", marker=1)
    repair = wrap_rtx(lost, payload_type=97, sequence_number=rseq, ssrc=RTX_SSRC)
    probe = RtpPacket(payload_type=97, sequence_number=(rseq + 1) & 0xFFFF, timestamp=4000, ssrc=RTX_SSRC, payload=b"")
    events = {"m": media, "r": repair, "p": probe}
    for i, k in enumerate(order):
        sx.run(r._handle_rtp_packet(events[k], arrival_time_ms=10 * i))
    ctx.reach("rtx-stats-fed")
    streams = r._RTCRtpReceiver__remote_streams
    keys = list(streams.keys())
    want_media = order.count("m")
    want_rtx = order.count("r") + order.count("p")
    got_media = streams[SSRC].packets_received if any(k == SSRC for k in keys) else 0
    got_rtx = streams[RTX_SSRC].packets_received if any(k == RTX_SSRC for k in keys) else 0
    ctx.check(got_media == want_media, "media-ssrc-counts-only-its-own-packets", "%r: %d, want %d" % (order, got_media, want_media))
    ctx.check(got_rtx == want_rtx, "rtx-ssrc-counts-every-packet-it-carried", "%r: %d, want %d" % (order, got_rtx, want_rtx))
    ctx.observe("n", [got_media, got_rtx])


class _Ref:
    """RFC 3550 A.1 / A.3 / A.8 reference (30 lines)."""

    def __init__(self):
        self.n = 0
        self.base = self.max = None
        self.cycles = 0
        self.jq4 = 0
        self.la = self.lt = None
        self.exp_prior = self.rec_prior = 0

    def add(self, seq, ts, arrival):
        self.n += 1
        if self.base is None:
            self.base = self.max = seq
            self.la, self.lt = arrival, ts
            return
        # plain `if`s: the implementation has already forked on the same conditions, so these are
        # decided by the path condition and keep the terms free of nested if-then-else
        fwd = (seq - self.max) & U16
        if fwd != 0 and fwd < 0x8000:
            if ts != self.lt:
                d = _abs((arrival - self.la) - _sdiff32(ts, self.lt))
                self.jq4 = self.jq4 + d - ((self.jq4 + 8) >> 4)
            if seq < self.max:
                self.cycles = self.cycles + 65536
            self.max = seq
            self.la = arrival
            self.lt = ts

    def report(self):
        expected = self.cycles + self.max - self.base + 1
        fr = _fraction(expected - self.exp_prior, self.n - self.rec_prior)
        self.exp_prior, self.rec_prior = expected, self.n
        return fr, _clamp(expected - self.n), (self.cycles + self.max) & U32, self.jq4 >> 4


def h_bmc(ctx, events, near):
    """<= 5 packets from a fresh object, a report wherever `events` says 'r'."""
    s = StreamStatistics(90000)
    ref = _Ref()
    clock = ClockStub()
    origin = ctx.int("origin", 0, U16)
    ts0 = ctx.int("ts0", 0, U32)
    if near:
        ctx.assume(origin >= 0xFFFC, "sequence origin within 4 of the wrap")
        ctx.assume(ts0 >= 0xFFFFF000, "timestamp origin within 4096 of the wrap")
    i = 0
    with Patch(recv, time=clock):
        for ev in events:
            if ev == "p":
                off = ctx.int("off%d" % i, -3, 6) if i else 0
                seq = (origin + off) & U16
                ts = (ts0 + ctx.int("dts%d" % i, 0, 9000)) & U32 if i else ts0
                arrival = ctx.int("arr%d" % i, 0, (1 << 20) - 1)
                clock.now = arrival
                s.add(RtpPacket(sequence_number=seq, timestamp=ts))
                ref.add(seq, ts, arrival)
                i += 1
                ctx.check(s.packets_received == ref.n, "bmc-received")
                ctx.check(s.cycles + s.max_seq == ref.cycles + ref.max, "bmc-extended-highest")
                ctx.check(s._jitter_q4 == ref.jq4, "bmc-jitter")
            else:
                fr, lost, hi, jit = ref.report()
                ctx.check(sx.eq(s.fraction_lost, fr), "bmc-fraction-lost")
                ctx.check(sx.eq(s.packets_lost, lost), "bmc-cumulative-lost")
                ctx.check(sx.eq(s.jitter, jit), "bmc-jitter-figure")
                ctx.check(sx.And(fr >= 0, fr <= 255), "bmc-fraction-fits-8-bits")
    ctx.reach("bmc-done")
    ctx.observe("final", [s.packets_received, s.cycles, s.max_seq, s._jitter_q4])


def _bmc_jobs(tier):
    pats = ["ppr", "pprpr", "prppr"] if tier == "quick" else ["ppr", "pprpr", "prppr", "pppr", "ppprpr", "prprprpr", "pppppr", "pprppr"]
    return [{"events": e, "near": n} for e in pats for n in (False, True)]


ENC = [
    "aiortc.rtcrtpreceiver:StreamStatistics.add",
    "aiortc.rtcrtpreceiver:StreamStatistics.fraction_lost",
    "aiortc.rtcrtpreceiver:StreamStatistics.jitter",
    "aiortc.rtcrtpreceiver:StreamStatistics.packets_expected",
    "aiortc.rtcrtpreceiver:StreamStatistics.packets_lost",
    "aiortc.rtcrtpreceiver:RTCRtpReceiver._run_rtcp",
    "aiortc.rtcrtpreceiver:RTCRtpReceiver._send_rtcp",
    "aiortc.rtp:RtcpReceiverInfo.__bytes__",
    "aiortc.rtp:RtcpRrPacket.__bytes__",
    "aiortc.rtp:clamp_packets_lost",
    "aiortc.utils:uint16_gt",
]
STUBS = [
    "time.time()*clockrate -> symbolic integer arrival clock (arbitrary jumps, also backwards)",
    "asyncio.sleep -> returns once, then CancelledError (one iteration of _run_rtcp)",
    "random.random -> 0.5",
    "DTLS transport -> datagram list",
]

HARNESSES = {
    "step-add": Harness(
        "step-add",
        h_step_add,
        lambda tier: [{}],
        style="STEP",
        bounds="one add() from an arbitrary state under Inv (16-bit base/max, cycles <= 17 wraps, received <= 2^24, jitter accumulator < 2^40, arrival clock < 2^44); seq anywhere but exactly half the space away",
        encoded=ENC,
        stubs=STUBS,
        twin="added",
    ),
    "many-streams": Harness("many-streams", h_many_streams, lambda tier: [{"n": n} for n in (1, 31, 32, 33, 64, 130)], style="NC (targeted, concrete count)", bounds="1, 31, 32, 33, 64 and 130 remote SSRCs on one receiver, one report round", encoded=ENC, stubs=STUBS, twin="many-streams-reported"),
    "receiver-rtx-stats": Harness("receiver-rtx-stats", h_receiver_rtx_stats, lambda tier: [{"order": o} for o in ("mr", "rm", "mrp", "pmr", "r", "p")], style="STEP", bounds="real RTCRtpReceiver._handle_rtp_packet with RTX negotiated: a media packet, a retransmission of its successor and an empty RTX probe in 6 orders; media and RTX sequence origins symbolic", encoded=ENC + ["aiortc.rtcrtpreceiver:RTCRtpReceiver._handle_rtp_packet"], stubs=STUBS, twin="rtx-stats-fed", opts={"samples": 1}),
    "step-report": Harness(
        "step-report", h_step_report, lambda tier: [{}], style="STEP", bounds="one report from an arbitrary state under Inv, built and serialised by the real _run_rtcp, parsed back", encoded=ENC, stubs=STUBS, twin="rtcp-iteration-done"
    ),
    "bmc": Harness(
        "bmc",
        h_bmc,
        _bmc_jobs,
        style="BMC vs RFC 3550 reference",
        bounds="<=3 (quick) / <=5 packets from a fresh object with reports in between; seq offsets -3..6 around a symbolic origin, timestamps origin+0..9000, arrival clock arbitrary < 2^20 (the wide range is covered by step-add); second run with origins at the wrap",
        encoded=ENC,
        stubs=STUBS,
        twin="bmc-done",
    ),
}
