"""C17 (relational part) - behaviour does not depend on sequence-number origins.

2-safety harnesses: the same relative scenario is run twice inside one path, once with the
sequence-number origin a free 16/32-bit variable and once with a small concrete origin (no wrap
possible); all observables must agree after un-shifting.
"""
from __future__ import annotations

import aiortc.rtcrtpreceiver as recvmod
import aiortc.rtcsctptransport as sctp
from aiortc.jitterbuffer import JitterBuffer
from aiortc.rtcrtpreceiver import NackGenerator, StreamStatistics, TimestampMapper
from aiortc.rtcsctptransport import DataChunk, ForwardTsnChunk, SackChunk
from aiortc.rtp import RtpPacket

from sx import api as sx

from .c18_rr import ClockStub
from .sctp_env import Env
from .util import Patch

U16, U32 = 0xFFFF, 0xFFFFFFFF


def _crc():
    return (lambda d: 0) if sx.active() else None


def h_rel_jitter(ctx, npk, cap, prefetch):
    """JitterBuffer.add under a shifted sequence / timestamp origin."""
    oa = ctx.int("seq_origin", 0, U16)
    ta = ctx.int("ts_origin", 0, U32)
    ob, tb = 1000, 1 << 20
    A, B = JitterBuffer(capacity=cap, prefetch=prefetch, is_video=True), JitterBuffer(capacity=cap, prefetch=prefetch, is_video=True)
    for i in range(npk):
        off = ctx.int("off%d" % i, -3, cap + 2) if i else 0
        frame = ctx.int("frame%d" % i, 0, 3)
        res = []
        for jb, o, t in ((A, oa, ta), (B, ob, tb)):
            p = RtpPacket(sequence_number=(o + off) & U16, timestamp=(t + 3000 * frame) & U32)
            p._data = bytes([i])
            pli, fr = jb.add(p)
            res.append((pli, None if fr is None else (fr.data, (fr.timestamp - t) & U32), (jb._origin - o) & U16))
        ctx.check(res[0][0] == res[1][0], "jitter-pli-flag-origin-independent")
        ctx.check((res[0][1] is None) == (res[1][1] is None), "jitter-frame-release-origin-independent")
        if res[0][1] is not None and res[1][1] is not None:
            ctx.check(res[0][1][0] == res[1][1][0], "jitter-frame-content-origin-independent")
            ctx.check(sx.eq(res[0][1][1], res[1][1][1]), "jitter-frame-timestamp-origin-independent")
        ctx.check(sx.eq(res[0][2], res[1][2]), "jitter-buffer-origin-moves-identically")
    ctx.reach("rel-jitter-done")
    ctx.observe("n", npk)


def h_rel_nack(ctx, npk):
    oa = ctx.int("seq_origin", 0, U16)
    ob = 5000
    A, B = NackGenerator(), NackGenerator()
    for i in range(npk):
        off = ctx.int("off%d" % i, -4, 8) if i else 0
        ra = A.add(RtpPacket(sequence_number=(oa + off) & U16))
        rb = B.add(RtpPacket(sequence_number=(ob + off) & U16))
        ctx.check(sx.Iff(ra, rb), "nack-new-gap-flag-origin-independent")
        ma = [(x - oa) & U16 for x in A.missing]
        mb = [(x - ob) & U16 for x in B.missing]
        ctx.check(len(ma) == len(mb), "nack-missing-count-origin-independent")
        for x in ma:
            ctx.check(sx.Or(*[sx.eq(x, y) for y in mb]) if mb else False, "nack-missing-set-origin-independent")
        ctx.check(sx.eq((A.max_seq - oa) & U16, (B.max_seq - ob) & U16), "nack-max-seq-origin-independent")
    ctx.reach("rel-nack-done")
    ctx.observe("n", npk)


def h_rel_stats(ctx, npk):
    oa = ctx.int("seq_origin", 0, U16)
    ta = ctx.int("ts_origin", 0, U32)
    ob, tb = 3000, 1 << 16
    A, B = StreamStatistics(90000), StreamStatistics(90000)
    clock = ClockStub()
    with Patch(recvmod, time=clock):
        for i in range(npk):
            off = ctx.int("off%d" % i, -3, 6) if i else 0
            dts = ctx.int("dts%d" % i, 0, 9000) if i else 0
            clock.now = ctx.int("arrival%d" % i, 0, 1 << 20)
            A.add(RtpPacket(sequence_number=(oa + off) & U16, timestamp=(ta + dts) & U32))
            B.add(RtpPacket(sequence_number=(ob + off) & U16, timestamp=(tb + dts) & U32))
            ctx.check(A.packets_received == B.packets_received, "stats-received-origin-independent")
            ctx.check(sx.eq(A.packets_expected, B.packets_expected), "stats-expected-origin-independent")
            ctx.check(sx.eq(A.packets_lost, B.packets_lost), "stats-lost-origin-independent")
            ctx.check(sx.eq(A.jitter, B.jitter), "stats-jitter-origin-independent")
        ctx.check(sx.eq(A.fraction_lost, B.fraction_lost), "stats-fraction-lost-origin-independent")
    ctx.reach("rel-stats-done")
    ctx.observe("n", npk)


def h_rel_tsmap(ctx, n):
    ta = ctx.int("ts_origin", 0, U32)
    tb = 777
    A, B = TimestampMapper(), TimestampMapper()
    cur = 0
    for i in range(n):
        cur = cur + (ctx.int("step%d" % i, 0, (1 << 31) - 1) if i else 0)  # any forward jump below half the space
        ra = A.map((ta + cur) & U32)
        rb = B.map((tb + cur) & U32)
        ctx.check(sx.eq(ra, rb), "timestamp-mapper-origin-independent")
        ctx.check(sx.eq(ra, cur), "timestamp-mapper-unwraps-to-elapsed-ticks")
    ctx.reach("rel-tsmap-done")
    ctx.observe("n", n)


def _recv_obs(t, origin, logs):
    mis = sorted(((x - origin) & U32) for x in t._sack_misordered) if not sx.active() else [((x - origin) & U32) for x in t._sack_misordered]
    return ((t._last_received_tsn - origin) & U32, mis, [list(l) for l in logs])


def h_rel_sctp_recv(ctx, layout, k, fwd=False):
    """Receiver (_receive_data_chunk, _mark_received, reassembly, SACK construction)."""
    oa = ctx.int("tsn_origin", 0, U32)
    sa = ctx.int("ssn_origin", 0, U16)
    ob, sb = 1000, 10
    with Env(crc=_crc()) as env:
        runs = []
        for origin, ssn0 in ((oa, sa), (ob, sb)):
            t = env.transport("controlled", established=True, local_tsn=5, remote_tsn=origin)
            log = []
            ch = env.channel(t, id=1)
            ch.on("message", (lambda lg: lambda m: lg.append(m))(log))
            t._get_inbound_stream(1).sequence_number = ssn0
            sacks = []

            async def rec(chunk, sacks=sacks):
                sacks.append(chunk)

            t._send_chunk = rec
            chunks = []
            tsn, ssn = origin, ssn0
            for mi, nfrag in enumerate(layout):
                for f in range(nfrag):
                    c = DataChunk(flags=(2 if f == 0 else 0) | (1 if f == nfrag - 1 else 0))
                    c.tsn, c.stream_id, c.stream_seq, c.protocol, c.user_data = tsn, 1, ssn, 53, bytes([16 * mi + f])
                    chunks.append(c)
                    tsn = (tsn + 1) & U32
                ssn = (ssn + 1) & U16
            runs.append((t, origin, log, chunks, sacks))
        n = len(runs[0][3])
        for step in range(k):
            i = ctx.choice("arr%d" % step, list(range(n + 1 if fwd else n)))
            obs = []
            for t, origin, log, chunks, sacks in runs:
                if i == n:
                    # FORWARD-TSN abandoning message 0 of the stream (its chunks and stream sequence number)
                    f = ForwardTsnChunk()
                    f.cumulative_tsn = (origin + layout[0] - 1) & U32
                    f.streams = [(1, chunks[0].stream_seq)]
                    sx.run(t._receive_forward_tsn_chunk(f))
                else:
                    c = chunks[i]
                    d = DataChunk(flags=c.flags)
                    d.tsn, d.stream_id, d.stream_seq, d.protocol, d.user_data = c.tsn, c.stream_id, c.stream_seq, c.protocol, c.user_data
                    sx.run(t._receive_data_chunk(d))
                sx.run(t._send_sack())
                s = sacks[-1]
                obs.append(((t._last_received_tsn - origin) & U32, len(t._sack_misordered), list(log), [tuple(g) for g in s.gaps], (s.cumulative_tsn - origin) & U32, len(s.duplicates)))
            a, b = obs
            ctx.check(sx.eq(a[0], b[0]), "sctp-cumulative-tsn-origin-independent")
            ctx.check(a[1] == b[1], "sctp-misordered-count-origin-independent")
            ctx.check(a[2] == b[2], "sctp-deliveries-origin-independent")
            ctx.check(sx.deep_eq(a[3], b[3]), "sctp-sack-gap-blocks-origin-independent")
            ctx.check(sx.eq(a[4], b[4]), "sctp-sack-cumulative-origin-independent")
            ctx.check(a[5] == b[5], "sctp-sack-duplicates-origin-independent")
    ctx.reach("rel-sctp-recv-done")
    ctx.observe("k", k)


def h_rel_reconfig(ctx, n):
    """Outgoing stream resets (channel closes): n closes one after the other, each answered by the
    peer, with the re-configuration request sequence number at a symbolic origin vs a small one."""
    from aiortc.rtcsctptransport import StreamResetResponseParam

    oa = ctx.int("reconfig_origin", 0, U32)
    ob = 1000
    with Env(crc=_crc()) as env:
        runs = []
        for origin in (oa, ob):
            t = env.transport("controlling", established=True, local_tsn=5, remote_tsn=77)
            t._reconfig_request_seq = origin
            sent = []

            async def rec(param, sent=sent):
                sent.append(param)

            t._send_reconfig_param = rec
            chans = [env.channel(t, id=2 * i) for i in range(n)]
            runs.append((t, origin, sent, chans))
        for i in range(n):
            obs = []
            for t, origin, sent, chans in runs:
                chans[i].close()
                env.drain()
                req = sent[-1] if sent else None
                got_req = req is not None and len(sent) == i + 1
                rel = ((req.request_sequence - origin) & U32) if got_req else None
                wire_ok = True
                if got_req:
                    b = bytes(req) if not sx.active() else sx.to_bytes(req)  # must be serialisable
                    wire_ok = len(b) == 12 + 2 * len(req.streams)
                    sx.run(t._receive_reconfig_param(StreamResetResponseParam(response_sequence=req.request_sequence, result=1)))
                    env.drain()
                obs.append((got_req, rel, wire_ok, chans[i].readyState, ((t._reconfig_request_seq - origin) & U32)))
            a, b = obs
            ctx.check(a[0] and b[0], "reset-request-sent-for-every-close")
            ctx.check(sx.eq(a[1], b[1]), "reconfig-request-sequence-origin-independent")
            ctx.check(a[2] and b[2], "reset-request-serialisable")
            ctx.check(a[3] == b[3] == "closed", "channel-closes-after-the-peer-answers", "%s / %s" % (a[3], b[3]))
            ctx.check(sx.eq(a[4], b[4]), "next-request-sequence-origin-independent")
    ctx.reach("rel-reconfig-done")
    ctx.observe("n", n)


def h_rel_sctp_send(ctx, q, ngaps):
    """Sender (_receive_sack_chunk incl. gap acks, miss counting, fast retransmit marks)."""
    oa = ctx.int("tsn_origin", 0, U32)
    ob = 1000
    books = [ctx.int("book%d" % i, 1, 1200) for i in range(q)]
    adv = ctx.int("cum_advance", -1, q + 1)
    gaps = [(ctx.int("gap%d_start" % g, 1, q + 2), ctx.int("gap%d_end" % g, 1, q + 2)) for g in range(ngaps)]
    misses = [ctx.int("misses%d" % i, 0, 2) for i in range(q)]
    with Env(crc=_crc()) as env:
        obs = []
        for origin in (oa, ob):
            t = env.transport("controlling", established=True, local_tsn=origin, remote_tsn=77)
            sent = []

            async def rec(chunk, sent=sent):
                sent.append(chunk)

            t._send_chunk = rec
            t._cwnd = 1 << 16
            for i in range(q):
                c = DataChunk(flags=3)
                c.tsn, c.stream_id, c.stream_seq, c.protocol, c.user_data = (origin + i) & U32, 1, i, 53, b"x"
                c._abandoned, c._acked, c._book_size, c._expiry, c._max_retransmits = False, False, books[i], None, None
                c._misses, c._retransmit, c._sent_count, c._sent_time = misses[i], False, 1, 999.5
                t._sent_queue.append(c)
                t._flight_size = t._flight_size + books[i]
            t._local_tsn = (origin + q) & U32
            t._t3_start()
            s = SackChunk()
            s.cumulative_tsn = (origin - 1 + adv) & U32
            s.advertised_rwnd = 131072
            s.gaps = list(gaps)
            sx.run(t._receive_sack_chunk(s))
            env.drain()
            obs.append((len(t._sent_queue), t._flight_size, [(c._acked, c._retransmit, c._misses, (c.tsn - origin) & U32) for c in t._sent_queue], [(c.tsn - origin) & U32 for c in sent], t._cwnd, None if t._fast_recovery_exit is None else (t._fast_recovery_exit - origin) & U32))
        a, b = obs
        ctx.check(a[0] == b[0], "sender-queue-length-origin-independent")
        ctx.check(sx.eq(a[1], b[1]), "sender-flight-size-origin-independent")
        ctx.check(sx.deep_eq(a[2], b[2]), "sender-chunk-marks-origin-independent")
        ctx.check(sx.deep_eq(a[3], b[3]), "sender-retransmissions-origin-independent")
        ctx.check(sx.eq(a[4], b[4]), "sender-cwnd-origin-independent")
        ctx.check(sx.deep_eq(a[5], b[5]), "sender-fast-recovery-exit-origin-independent")
    ctx.reach("rel-sctp-send-done")
    ctx.observe("q", q)
