"""C05 - no received datagram can crash, hang or wedge the receive path (NC harnesses).

Every byte of a bounded-length datagram is symbolic.  Allowed outcomes of a parser: return or
ValueError.  Allowed outcome of a receive entry point (_handle_data, _handle_rtp_data,
_handle_rtcp_data, _handle_rtp_packet, _handle_rtcp_packet): return.  Anything else escapes
RTCDtlsTransport.__run and closes the transport.  A path that exceeds the decision budget or the
path wall-clock cap is a hang candidate, confirmed by a concrete replay under a 2 s watchdog.
"""
from __future__ import annotations

import asyncio as _real_asyncio
import struct

import aiortc.rtcdtlstransport as dtlsmod
import aiortc.rtcrtpreceiver as recvmod
import aiortc.rtcrtpsender as sendmod
import aiortc.rtcsctptransport as sctp
from aiortc.codecs.h264 import H264PayloadDescriptor
from aiortc.codecs.vpx import VpxPayloadDescriptor
from aiortc.rtcrtpparameters import (
    RTCRtpCodecParameters,
    RTCRtpHeaderExtensionParameters,
    RTCRtpParameters,
)
from aiortc.rtcrtpreceiver import RTCRtpReceiver
from aiortc.rtcrtpsender import RTCRtpSender
from aiortc.rtp import HeaderExtensionsMap, RtcpPacket, RtpPacket

from sx import api as sx
from sx.runner import Harness

from .c07_rtp import EXT_URIS
from .sctp_env import Env, State
from .util import Patch, StubAsyncio

PROPERTY = "C05"
MODULES = [
    "aiortc.rtcsctptransport",
    "aiortc.rtp",
    "aiortc.rtcdtlstransport",
    "aiortc.rtcrtpreceiver",
    "aiortc.rtcrtpsender",
    "aiortc.codecs.h264",
    "aiortc.codecs.vpx",
]
DEADLINE = {"quick": 600, "thorough": 3000}
NC_OPTS = {"cut_is_violation": True, "max_decisions": 1500, "path_timeout_s": 30, "samples": 1}


def _extmap():
    m = HeaderExtensionsMap()
    m.configure(RTCRtpParameters(headerExtensions=[RTCRtpHeaderExtensionParameters(id=i + 1, uri=uri) for i, (_, uri) in enumerate(EXT_URIS)]))
    return m


def _restrict_nack(ctx, data, ptype, base=0):
    """RTPFB: every bit of a NACK bitmask forks the parser (2^16 paths per entry, identical loop
    body for every bit); keep bits {0, 1, 15} free and fix the others to 0."""
    if not sx.active():
        return
    # later members of a compound are anything but RTPFB
    o = base + 4
    while o + 2 <= len(data):
        ctx.assume(data[o + 1] != 205, "only the first packet of a compound may be an RTPFB")
        o += 4
    if ptype != 205:
        return
    o = base + 12
    while o + 4 <= len(data):
        ctx.assume(sx.And((data[o + 2] & 0x7F) == 0, (data[o + 3] & 0xFC) == 0), "NACK bitmask bits 2..14 are zero")
        o += 4


# ------------------------------------------------------------------------------------- parsers
def h_rtp_parse(ctx, n, first):
    data = sx.mkbytes([first] + list(ctx.bytes("d", n - 1))) if n else b""
    m = _extmap()
    try:
        with sx.timelimit(ctx, 2.0, "hang:work-out-of-proportion"):
            p = RtpPacket.parse(data, m)
        ctx.reach("rtp-parsed")
        ctx.observe("ok", [p.payload_type, p.sequence_number, len(p.payload)])
    except ValueError:
        ctx.reach("rtp-rejected")
        ctx.observe("ok", "ValueError")


def h_rtcp_parse(ctx, n, first, ptype):
    head = [first, ptype][: min(n, 2)]
    data = sx.mkbytes(head + list(ctx.bytes("d", n - len(head)))) if n else b""
    _restrict_nack(ctx, data, ptype)
    try:
        with sx.timelimit(ctx, 2.0, "hang:work-out-of-proportion"):
            ps = RtcpPacket.parse(data)
        ctx.reach("rtcp-parsed")
        ctx.observe("ok", len(ps))
    except ValueError:
        ctx.reach("rtcp-rejected")
        ctx.observe("ok", "ValueError")


def h_h264(ctx, n, first):
    data = sx.mkbytes([first] + list(ctx.bytes("d", n - 1))) if n else b""
    try:
        with sx.timelimit(ctx, 2.0, "hang:work-out-of-proportion"):
            _, out = H264PayloadDescriptor.parse(data)
        ctx.reach("h264-parsed")
        ctx.check(len(out) <= len(data) * 5 + 8, "output-proportional-to-input")
        ctx.observe("ok", len(out))
    except ValueError:
        ctx.observe("ok", "ValueError")


def h_vpx(ctx, n):
    data = ctx.bytes("d", n)
    try:
        with sx.timelimit(ctx, 2.0, "hang:work-out-of-proportion"):
            _, out = VpxPayloadDescriptor.parse(data)
        ctx.reach("vpx-parsed")
        ctx.observe("ok", len(out))
    except ValueError:
        ctx.observe("ok", "ValueError")


# ------------------------------------------------------------------------------------- SCTP
def _crc_patch(data):
    """Concrete mode: give the datagram its real checksum."""
    import google_crc32c

    c = google_crc32c.value(bytes(data[0:8]) + b"\x00\x00\x00\x00" + bytes(data[12:]))
    return bytes(data[0:8]) + struct.pack("<L", c) + bytes(data[12:])


def _mk_transport(env, state):
    role = "controlled" if state in ("closed_server", "established_server") else "controlling"
    if state.startswith("established"):
        t = env.transport(role, established=True, local_tsn=1000, remote_tsn=2000, vtag=0x11223344, rtag=0x55667788)
        cid = 0 if t.is_server else 1
        ch = env.channel(t, id=cid)
        # two outstanding DATA chunks
        t._data_channel_send(ch, b"abc")
        t._data_channel_send(ch, "de")
        env.drain()
        return t, ch
    t = env.transport(role, established=False, local_tsn=1000, vtag=0x11223344)
    t._RTCSctpTransport__started = True
    if state == "cookie_wait":
        sx.run(t._init())
    elif state == "cookie_echoed":
        sx.run(t._init())
        t._t1_cancel()
        echo = sctp.CookieEchoChunk()
        echo.body = b"cookie"
        t._t1_start(echo)
        t._last_received_tsn = 1999
        t._set_state(State.COOKIE_ECHOED)
    elif state == "shutdown_ack_sent":
        t._last_received_tsn = 1999
        t._association_state = State.SHUTDOWN_ACK_SENT
        t._t2_start(sctp.ShutdownAckChunk())
    return t, None


def h_sctp(ctx, state, ctype, n, vtag):
    """One datagram with a valid checksum, a correct (or zero) verification tag and n symbolic chunk
    bytes whose first byte (the chunk type) is fixed per job."""
    with Env(crc=(lambda d: 0) if sx.active() else None) as env:
        t, ch = _mk_transport(env, state)
        tag = 0x11223344 if vtag == "local" else 0
        body = [ctype] + list(ctx.bytes("c", n - 1))
        hdr = list(struct.pack("!HHL", 5000, 5000, tag)) + [0, 0, 0, 0]
        data = sx.mkbytes(hdr + body)
        if not sx.active():
            data = _crc_patch(data)
        log = []
        if ch is not None:
            ch.on("message", lambda m: log.append(m))
        pre_state = t._association_state
        with sx.timelimit(ctx, 2.0, "hang:work-out-of-proportion"):
            sx.run(t._handle_data(data))
            env.drain()
        ctx.reach("datagram-handled")
        # subsequent valid traffic is processed normally
        if pre_state == State.ESTABLISHED and t._association_state == State.ESTABLISHED:
            cid = 0 if t.is_server else 1
            untouched = (
                t._data_channels.get(cid) is ch
                and ch.readyState == "open"
                and not log
                and bool(t._last_received_tsn == 1999)
                and len(t._sack_misordered) == 0
                and cid not in t._inbound_streams
            )
            c = sctp.DataChunk(flags=3)
            c.tsn, c.stream_id, c.stream_seq, c.protocol, c.user_data = 2000, cid, 0, 53, b"ping"
            follow = sctp.serialize_packet(5000, 5000, 0x11223344, c)
            if not sx.active():
                follow = _crc_patch(follow)
            sx.run(t._handle_data(follow))
            env.drain()
            ctx.reach("follow-up-handled")
            if untouched:
                ctx.check(log == [b"ping"], "valid-data-after-garbage-is-delivered")
        ctx.observe("state", str(t._association_state))
        ctx.observe("sent", len(t.transport.sent))


def h_sctp_data(ctx, k, ppid, same_stream, role):
    """Structure-aware: a well-formed DATA chunk with the expected TSN whose payload protocol id,
    flags, stream and k user-data bytes are symbolic (DCEP OPEN/ACK parsing, message delivery)."""
    with Env(crc=(lambda d: 0) if sx.active() else None) as env:
        t, ch = _mk_transport(env, "established_server" if role == "server" else "established_client")
        cid = 0 if t.is_server else 1
        log = []
        ch.on("message", lambda m: log.append(m))
        t.on("datachannel", lambda c: log.append("datachannel"))
        c = sctp.DataChunk(flags=ctx.int("flags", 0, 7))
        c.tsn = 2000
        c.stream_id = cid if same_stream else ctx.int("stream", 0, 65535)
        c.stream_seq = 0
        c.protocol = ppid if ppid is not None else ctx.int("ppid", 0, 0xFFFFFFFF)
        c.user_data = ctx.bytes("u", k)
        data = sctp.serialize_packet(5000, 5000, 0x11223344, c)
        if not sx.active():
            data = _crc_patch(data)
        with sx.timelimit(ctx, 2.0, "hang:work-out-of-proportion"):
            sx.run(t._handle_data(data))
            env.drain()
        ctx.reach("data-handled")
        ctx.check(t._association_state == State.ESTABLISHED, "association-still-established")
        ctx.observe("log", len(log))


def h_sctp_two_data(ctx, role):
    """Structure-aware: two well-formed DATA chunks in two datagrams, both TSNs fully symbolic
    (duplicates, far-ahead and half-the-space-away TSNs are all in range)."""
    with Env(crc=(lambda d: 0) if sx.active() else None) as env:
        t, ch = _mk_transport(env, "established_server" if role == "server" else "established_client")
        cid = 0 if t.is_server else 1
        for i in range(2):
            c = sctp.DataChunk(flags=ctx.int("flags%d" % i, 0, 7))
            c.tsn = ctx.int("tsn%d" % i, 0, 0xFFFFFFFF)
            c.stream_id = cid
            c.stream_seq = ctx.int("ssn%d" % i, 0, 1)
            c.protocol = 53
            c.user_data = b"z"
            data = sctp.serialize_packet(5000, 5000, 0x11223344, c)
            if not sx.active():
                data = _crc_patch(data)
            with sx.timelimit(ctx, 2.0, "hang:work-out-of-proportion"):
                sx.run(t._handle_data(data))
                env.drain()
        ctx.reach("two-data-handled")
        ctx.check(t._association_state == State.ESTABLISHED, "association-still-established")
        ctx.observe("cum", t._last_received_tsn)


def h_remb_route(ctx, extra):
    """A REMB whose FCI is symbolic behind the 'REMB' tag (SSRC count, exponent/mantissa, 0..2
    SSRC entries - the count may claim more entries than are present) is routed: nothing but the
    router's own ValueError handling may be involved, nothing escapes."""
    from aiortc.rtcdtlstransport import RtpRouter
    from aiortc.rtp import RtcpPsfbPacket

    class S:
        pass

    router = RtpRouter()
    s = S()
    s._ssrc = 0x01020304
    router.register_sender(s, s._ssrc)
    p = RtcpPsfbPacket(fmt=15, ssrc=1, media_ssrc=0, fci=b"REMB" + ctx.bytes("remb", 4 + extra))
    got = router.route_rtcp(p)
    ctx.reach("remb-routed")
    ctx.observe("n", len(got))


def h_sctp_many_gaps(ctx, n):
    """Targeted, concrete count: a peer that has sent every second TSN (n separate holes, never
    filled) sends one more DATA chunk: building the SACK with n+1 gap blocks must not raise."""
    with Env(crc=(lambda d: 0) if sx.active() else None) as env:
        t, ch = _mk_transport(env, "established_server")
        base = 2000  # next expected TSN
        t._sack_misordered = set(base + 2 * k for k in range(1, n + 1))
        c = sctp.DataChunk(flags=3)
        c.tsn = base + 2 * (n + 1) + 2 * ctx.choice("further_ahead", [0, 3])  # (concrete per path: the set is hashed)
        c.stream_id = 0
        c.stream_seq = ctx.int("ssn", 1, 9)
        c.protocol = 53
        c.user_data = b"z"
        data = sctp.serialize_packet(5000, 5000, 0x11223344, c)
        if not sx.active():
            data = _crc_patch(data)
        sx.run(t._handle_data(data))
        env.drain()
        ctx.reach("many-gaps-handled")
        ctx.check(t._association_state == State.ESTABLISHED, "association-still-established")
        ctx.observe("n", len(t._sack_misordered))


def h_sctp_init_then_valid(ctx, role):
    """A stray / duplicated INIT (well formed, verification tag 0, every field symbolic) reaches an
    ESTABLISHED association; the peer's next two genuine messages must still be delivered."""
    with Env(crc=(lambda d: 0) if sx.active() else None) as env:
        t, ch = _mk_transport(env, "established_server" if role == "server" else "established_client")
        cid = 0 if t.is_server else 1
        log = []
        ch.on("message", lambda m: log.append(m))
        init = sctp.InitChunk()
        init.initiate_tag = ctx.int("initiate_tag", 0, 0xFFFFFFFF)
        init.advertised_rwnd = ctx.int("rwnd", 0, 0xFFFFFFFF)
        init.outbound_streams = ctx.int("os", 0, 65535)
        init.inbound_streams = ctx.int("is", 0, 65535)
        init.initial_tsn = ctx.int("initial_tsn", 0, 0xFFFFFFFF)
        data = sctp.serialize_packet(5000, 5000, 0, init)
        if not sx.active():
            data = _crc_patch(data)
        with sx.timelimit(ctx, 2.0, "hang:work-out-of-proportion"):
            sx.run(t._handle_data(data))
            env.drain()
        for tsn, ssn, payload in ((2000, 0, b"a"), (2001, 1, b"b")):
            c = sctp.DataChunk(flags=3)
            c.tsn, c.stream_id, c.stream_seq, c.protocol, c.user_data = tsn, cid, ssn, 53, payload
            data = sctp.serialize_packet(5000, 5000, 0x11223344, c)
            if not sx.active():
                data = _crc_patch(data)
            with sx.timelimit(ctx, 2.0, "hang:work-out-of-proportion"):
                sx.run(t._handle_data(data))
                env.drain()
        ctx.reach("valid-after-init-handled")
        ctx.check(t._association_state == State.ESTABLISHED, "association-still-established")
        ctx.check(log == [b"a", b"b"], "valid-traffic-after-a-stray-init-is-delivered-in-order", repr(log))
        ctx.observe("n", len(log))


def h_sctp_sack_then_valid(ctx, role):
    """A well-formed SACK with a nonsensical cumulative TSN (anything, also far beyond what was
    ever sent) reaches a sender with two chunks outstanding; the peer's genuine SACK for those two
    chunks must still be honoured: nothing stays outstanding, T3 stops."""
    with Env(crc=(lambda d: 0) if sx.active() else None) as env:
        t, ch = _mk_transport(env, "established_server" if role == "server" else "established_client")
        ctx.check(len(t._sent_queue) == 2 and t._sent_queue[0].tsn == 1000, "two-chunks-outstanding")
        for k in range(2):
            if k == 1:
                t._data_channel_send(ch, b"fresh")  # the application keeps sending
                env.drain()
            s = sctp.SackChunk()
            s.cumulative_tsn = ctx.int("bogus_cumulative_tsn", 0, 0xFFFFFFFF) if k == 0 else (t._local_tsn - 1) & 0xFFFFFFFF
            s.advertised_rwnd = 131072
            data = sctp.serialize_packet(5000, 5000, 0x11223344, s)
            if not sx.active():
                data = _crc_patch(data)
            with sx.timelimit(ctx, 2.0, "hang:work-out-of-proportion"):
                sx.run(t._handle_data(data))
                env.drain()
        ctx.reach("sack-after-bogus-sack-handled")
        ctx.check(t._association_state == State.ESTABLISHED, "association-still-established")
        ctx.check(len(t._sent_queue) == 0, "genuine-sack-after-a-nonsensical-one-is-honoured", "%d chunk(s) still outstanding" % len(t._sent_queue))
        ctx.check(t._t3_handle is None or not t._t3_handle.pending, "t3-stops-once-everything-is-acknowledged")
        ctx.observe("left", len(t._sent_queue))


def h_sctp_then_valid(ctx, role, unordered, frag=None):
    """'... and processes subsequent valid traffic normally': one well-formed but nonsensical
    complete DATA message (any TSN, any stream sequence number, valid tag) on an open channel's
    stream, then two genuine ordered messages with the TSNs and sequence numbers the peer would
    use next; both must be delivered, in order."""
    with Env(crc=(lambda d: 0) if sx.active() else None) as env:
        t, ch = _mk_transport(env, "established_server" if role == "server" else "established_client")
        cid = 0 if t.is_server else 1
        log = []
        ch.on("message", lambda m: log.append(m))
        btsn = ctx.int("bogus_tsn", 0, 0xFFFFFFFF)
        bssn = ctx.int("bogus_ssn", 2, 65535)  # (0 and 1 would impersonate the genuine messages)
        v0 = sx.ite(btsn == 2000, 2001, 2000)
        v1 = sx.ite(btsn == v0 + 1, v0 + 2, v0 + 1)
        bflags = {None: 3, "middle": 0, "last": 1}[frag] | (4 if unordered else 0)  # a headless fragment never completes
        chunks = [(btsn, bssn, bflags, b"?"), (v0, 0, 3, b"a"), (v1, 1, 3, b"b")]
        for tsn, ssn, flags, payload in chunks:
            c = sctp.DataChunk(flags=flags)
            c.tsn, c.stream_id, c.stream_seq, c.protocol, c.user_data = tsn, cid, ssn, 53, payload
            data = sctp.serialize_packet(5000, 5000, 0x11223344, c)
            if not sx.active():
                data = _crc_patch(data)
            with sx.timelimit(ctx, 2.0, "hang:work-out-of-proportion"):
                sx.run(t._handle_data(data))
                env.drain()
        ctx.reach("valid-after-bogus-handled")
        ctx.check(t._association_state == State.ESTABLISHED, "association-still-established")
        genuine = [m for m in log if m in (b"a", b"b")]
        ctx.check(genuine == [b"a", b"b"], "valid-traffic-after-a-nonsensical-chunk-is-delivered-in-order", repr(log))
        ctx.observe("n", len(log))


def h_sctp_sack_gaps(ctx, ngaps):
    """Long-length effect outside the byte bound: a SACK with many maximal gap blocks."""
    with Env(crc=(lambda d: 0) if sx.active() else None) as env:
        t, ch = _mk_transport(env, "established_client")
        s = sctp.SackChunk()
        s.cumulative_tsn = ctx.int("cum", 0, 0xFFFFFFFF)
        s.advertised_rwnd = 65536
        s.gaps = [(ctx.int("g0a", 0, 65535), ctx.int("g0b", 0, 65535))] + [(0, 65535)] * (ngaps - 1)
        data = sctp.serialize_packet(5000, 5000, 0x11223344, s)
        if not sx.active():
            data = _crc_patch(data)
        with sx.timelimit(ctx, 2.0, "hang:work-out-of-proportion"):
            sx.run(t._handle_data(data))
            env.drain()
        ctx.reach("sack-handled")
        ctx.observe("n", len(t._sent_queue))


# ------------------------------------------------------------------------------------- RTP receive path
class _Tr:
    state = "connected"
    _stats_id = "t"

    def __init__(self):
        self.sent = []

    async def _send_rtp(self, data):
        self.sent.append(data)

    def _get_stats(self):
        return {}


class _NoEstimator:
    def add(self, **kw):
        return None


class _Clock:
    """clock whose datetime_from_ntp does not touch C-level datetime arithmetic with proxies."""

    def __init__(self, real):
        self._real = real

    def __getattr__(self, name):
        return getattr(self._real, name)

    def datetime_from_ntp(self, ntp):
        return self._real.current_datetime()


def _codec(name, pt, **params):
    return RTCRtpCodecParameters(mimeType="video/" + name, clockRate=90000, payloadType=pt, parameters=dict(params))


def _mk_receiver(warm):
    r = RTCRtpReceiver("video", _Tr())
    codecs = sx.SymDict() if sx.active() else {}
    codecs[96] = _codec("VP8", 96)
    codecs[97] = _codec("rtx", 97, apt=96)
    codecs[98] = _codec("H264", 98)
    codecs[99] = _codec("rtx", 99, apt=98)
    r._RTCRtpReceiver__codecs = codecs
    rtx = sx.SymDict() if sx.active() else {}
    rtx[0x2222] = 0x1111
    r._RTCRtpReceiver__rtx_ssrc = rtx
    r._RTCRtpReceiver__remote_bitrate_estimator = _NoEstimator()
    r._set_rtcp_ssrc(0x9999)
    if warm:
        p = RtpPacket(payload_type=96, sequence_number=1000, timestamp=5000, ssrc=0x1111, payload=b"\x10\x00abc")
        sx.run(r._handle_rtp_packet(p, arrival_time_ms=0))
    return r


def h_receiver(ctx, n, pt, seq, warm, ssrc):
    """Real RTCRtpReceiver._handle_rtp_packet: statistics, RTX unwrap, NACK generator, depayload,
    jitter buffer.  Payload bytes symbolic; payload type / sequence number / SSRC fixed per job."""
    with Patch(recvmod, clock=_Clock(recvmod.clock)):
        r = _mk_receiver(warm)
        p = RtpPacket(payload_type=pt, sequence_number=seq, timestamp=ctx.int("ts", 0, 0xFFFFFFFF), ssrc=ssrc, marker=ctx.int("m", 0, 1), payload=ctx.bytes("p", n))
        with sx.timelimit(ctx, 2.0, "hang:work-out-of-proportion"):
            sx.run(r._handle_rtp_packet(p, arrival_time_ms=ctx.int("arrival", 0, 1 << 40)))
        ctx.reach("rtp-packet-handled")
        ctx.check(len(r.transport.sent) <= 2, "at-most-nack-and-pli-per-packet")
        ctx.observe("sent", len(r.transport.sent))


class _Recorder:
    def __init__(self, name, ssrc=None):
        self.name = name
        self._ssrc = ssrc
        self.got = []

    async def _handle_rtp_packet(self, packet, arrival_time_ms):
        self.got.append("rtp")

    async def _handle_rtcp_packet(self, packet):
        self.got.append(type(packet).__name__)

    def _handle_disconnect(self):
        pass


class _DtlsStandIn:
    """`self` for the unbound RTCDtlsTransport._handle_rtp_data / _handle_rtcp_data."""

    def __init__(self):
        self._rtp_header_extensions_map = _extmap()
        self._rtp_router = dtlsmod.RtpRouter()
        self._role = "client"

    def _RTCDtlsTransport__log_debug(self, msg, *args):
        pass


def _rtcp_bytes(ctx, n, first, ptype, single):
    if single:
        # one packet filling the datagram: length word fixed, everything after it symbolic
        return sx.mkbytes([first, ptype, 0, n // 4 - 1] + list(ctx.bytes("d", n - 4)))
    return sx.mkbytes([first, ptype] + list(ctx.bytes("d", n - 2)))


def h_dtls_dispatch(ctx, kind, n, first, second, single=False):
    """RTCDtlsTransport._handle_rtp_data/_handle_rtcp_data: parse + route, recipients stubbed."""
    d = _DtlsStandIn()
    rcv = _Recorder("R")
    snd = _Recorder("S", ssrc=0x3333)
    d._rtp_router.register_receiver(rcv, ssrcs=[0x1111], payload_types=[96, 97])
    d._rtp_router.register_sender(snd, ssrc=0x3333)
    data = _rtcp_bytes(ctx, n, first, second, single) if kind == "rtcp" else sx.mkbytes([first, second] + list(ctx.bytes("d", n - 2)))
    if kind == "rtcp":
        _restrict_nack(ctx, data, second)
    with sx.timelimit(ctx, 2.0, "hang:work-out-of-proportion"):
        if kind == "rtp":
            sx.run(dtlsmod.RTCDtlsTransport._handle_rtp_data(d, data, arrival_time_ms=0))
        else:
            sx.run(dtlsmod.RTCDtlsTransport._handle_rtcp_data(d, data))
    ctx.reach("dispatched")
    ctx.observe("got", [rcv.got, snd.got])


def _mk_sender(rtx):
    with Patch(sendmod, asyncio=StubAsyncio(_real_asyncio)):
        s = RTCRtpSender("video", _Tr())
    s._ssrc = 0x3333
    s._rtx_ssrc = 0x4444
    hist = sx.SymDict() if sx.active() else {}
    for q in (65534, 65535, 0):
        hist[q % 128] = RtpPacket(payload_type=96, sequence_number=q, timestamp=1, ssrc=0x3333, payload=b"xy")
    s._RTCRtpSender__rtp_history = hist
    s._RTCRtpSender__rtx_payload_type = 97 if rtx else None
    s._RTCRtpSender__rtx_sequence_number = 65535
    return s


def h_sender_rtcp(ctx, n, first, ptype, rtx):
    """RtcpPacket.parse of n symbolic bytes, every packet handed to a real RTCRtpSender."""
    with Patch(sendmod, clock=_Clock(sendmod.clock)):
        s = _mk_sender(rtx)
        data = sx.mkbytes([first, ptype] + list(ctx.bytes("d", n - 2)))
        _restrict_nack(ctx, data, ptype)
        try:
            packets = RtcpPacket.parse(data)
        except ValueError:
            return
        with sx.timelimit(ctx, 2.0, "hang:work-out-of-proportion"):
            for p in packets:
                sx.run(s._handle_rtcp_packet(p))
        ctx.reach("sender-handled")
        ctx.check(len(s.transport.sent) <= 17 * (n // 4), "retransmissions-proportional-to-nack-size")
        ctx.observe("sent", len(s.transport.sent))


def h_receiver_rtcp(ctx, n, first, ptype, single=True):
    with Patch(recvmod, clock=_Clock(recvmod.clock)):
        r = _mk_receiver(False)
        r._RTCRtpReceiver__decoder_thread = None
        data = _rtcp_bytes(ctx, n, first, ptype, single)
        _restrict_nack(ctx, data, ptype)
        try:
            packets = RtcpPacket.parse(data)
        except ValueError:
            return
        for p in packets:
            sx.run(r._handle_rtcp_packet(p))
        ctx.reach("receiver-handled")


# ------------------------------------------------------------------------------------- jobs
CHUNK_TYPES = [0, 1, 2, 3, 4, 5, 6, 7, 8, 9, 10, 11, 14, 130, 192, 77]


def _sctp_jobs(tier):
    jobs = []
    if tier == "quick":
        for ct in CHUNK_TYPES:
            for n in (4, 8, 12):
                jobs.append({"state": "established_client", "ctype": ct, "n": n, "vtag": "local"})
        for ct in (1, 10, 6, 3, 0):
            jobs.append({"state": "closed_server", "ctype": ct, "n": 8, "vtag": "zero" if ct == 1 else "local"})
        for st in ("cookie_wait", "cookie_echoed", "shutdown_ack_sent", "established_server", "closed_client"):
            for ct in (2, 11, 9, 14, 130, 0, 3):
                jobs.append({"state": st, "ctype": ct, "n": 8, "vtag": "local"})
        jobs.append({"state": "established_client", "ctype": 1, "n": 8, "vtag": "zero"})
        return jobs
    for st in ("established_client", "established_server", "closed_server", "closed_client", "cookie_wait", "cookie_echoed", "shutdown_ack_sent"):
        for ct in CHUNK_TYPES:
            for n in (4, 5, 8, 12, 16):
                jobs.append({"state": st, "ctype": ct, "n": n, "vtag": "local"})
            jobs.append({"state": st, "ctype": ct, "n": 8, "vtag": "zero"})
    for ct in (0, 3, 130, 192, 1, 2):
        for n in (20, 24):
            jobs.append({"state": "established_client", "ctype": ct, "n": n, "vtag": "local"})
    return jobs


def _rtp_jobs(tier):
    jobs = []
    ns = [0, 1, 11, 12, 13, 16, 20] if tier == "quick" else list(range(0, 25, 1))
    for n in ns:
        for first in (0x80, 0x90, 0xB0, 0xA1, 0x9F, 0x40):
            if n == 0 and first != 0x80:
                continue
            if tier == "quick" and first in (0x9F, 0x40) and n not in (12, 20):
                continue
            jobs.append({"n": n, "first": first})
    return jobs


def _rtcp_jobs(tier):
    jobs = []
    ns = [0, 3, 4, 8, 12, 16, 20] if tier == "quick" else [0, 1, 2, 3] + list(range(4, 25, 4)) + [5, 9, 13, 18]
    for n in ns:
        for ptype in (200, 201, 202, 203, 205, 206, 204, 199):
            for first in (0x80, 0x81, 0xA1, 0x9F) if tier == "thorough" else (0x81, 0xA2):
                if n == 0 and (ptype, first) != (200, 0x81):
                    continue
                jobs.append({"n": n, "first": first, "ptype": ptype})
    return jobs


def _recv_jobs(tier):
    jobs = []
    for pt in (96, 97, 98, 99, 100):
        for n in ([0, 1, 2, 4, 8] if tier == "quick" else [0, 1, 2, 3, 4, 6, 8, 12]):
            for warm in (False, True):
                for seq, ssrc in ((1001, 0x1111), (1005, 0x1111), (900, 0x2222), (33770, 0x1111)):
                    if tier == "quick" and (seq, warm) not in ((1001, True), (1005, True), (900, False)):
                        continue
                    if pt in (97, 99) and ssrc != 0x2222 and tier == "quick":
                        continue
                    jobs.append({"n": n, "pt": pt, "seq": seq, "warm": warm, "ssrc": ssrc})
    return jobs


def _dispatch_jobs(tier):
    jobs = []
    for n in ([12, 16, 20] if tier == "quick" else [2, 8, 12, 13, 16, 20, 24, 28]):
        for second in (96, 97, 0x80 | 96, 5):
            jobs.append({"kind": "rtp", "n": n, "first": 0x80, "second": second})
            if tier == "thorough":
                jobs.append({"kind": "rtp", "n": n, "first": 0x90, "second": second})
    for n in ([8, 12, 16, 20] if tier == "quick" else [4, 8, 12, 16, 20, 24]):
        for ptype in (200, 201, 203, 205, 206):
            jobs.append({"kind": "rtcp", "n": n, "first": 0x81, "second": ptype})
            jobs.append({"kind": "rtcp", "n": n, "first": 0x8F, "second": ptype})
    # full-size single packets: header word fixed (no compound forks)
    for n, first, ptype in ((28, 0x80, 200), (52, 0x81, 200), (32, 0x81, 201), (20, 0x82, 206)):
        jobs.append({"kind": "rtcp", "n": n, "first": first, "second": ptype, "single": True})
    return jobs


def _sender_jobs(tier):
    jobs = []
    for n in ([8, 12, 16, 20] if tier == "quick" else [8, 12, 16, 20, 24, 28, 32]):
        for ptype, firsts in ((205, (0x81,)), (206, (0x81, 0x84, 0x8F)), (201, (0x81,)), (200, (0x80, 0x81))):
            for first in firsts:
                for rtx in (False, True):
                    if tier == "quick" and rtx and ptype != 205:
                        continue
                    jobs.append({"n": n, "first": first, "ptype": ptype, "rtx": rtx})
    return jobs


ENC_SCTP = [
    "aiortc.rtcsctptransport:parse_packet",
    "aiortc.rtcsctptransport:decode_params",
    "aiortc.rtcsctptransport:RTCSctpTransport._handle_data",
    "aiortc.rtcsctptransport:RTCSctpTransport._receive_chunk",
    "aiortc.rtcsctptransport:RTCSctpTransport._receive_data_chunk",
    "aiortc.rtcsctptransport:RTCSctpTransport._receive_sack_chunk",
    "aiortc.rtcsctptransport:RTCSctpTransport._receive_forward_tsn_chunk",
    "aiortc.rtcsctptransport:RTCSctpTransport._receive_reconfig_param",
    "aiortc.rtcsctptransport:RTCSctpTransport._data_channel_receive",
    "aiortc.rtcsctptransport:RTCSctpTransport._send_sack",
    "aiortc.rtcsctptransport:RTCSctpTransport._transmit",
    "aiortc.rtcsctptransport:DataChunk.__init__",
    "aiortc.rtcsctptransport:BaseInitChunk.__init__",
    "aiortc.rtcsctptransport:SackChunk.__init__",
    "aiortc.rtcsctptransport:ForwardTsnChunk.__init__",
    "aiortc.rtcsctptransport:ShutdownChunk.__init__",
    "aiortc.rtcsctptransport:StreamResetOutgoingParam.parse",
    "aiortc.rtcsctptransport:StreamAddOutgoingParam.parse",
    "aiortc.rtcsctptransport:StreamResetResponseParam.parse",
]
ENC_RTP = [
    "aiortc.rtp:RtpPacket.parse",
    "aiortc.rtp:HeaderExtensionsMap.get",
    "aiortc.rtp:unpack_header_extensions",
    "aiortc.rtp:RtcpPacket.parse",
    "aiortc.rtp:RtcpSrPacket.parse",
    "aiortc.rtp:RtcpRrPacket.parse",
    "aiortc.rtp:RtcpSdesPacket.parse",
    "aiortc.rtp:RtcpByePacket.parse",
    "aiortc.rtp:RtcpPsfbPacket.parse",
    "aiortc.rtp:RtcpRtpfbPacket.parse",
    "aiortc.rtp:unpack_remb_fci",
    "aiortc.rtcdtlstransport:RTCDtlsTransport._handle_rtp_data",
    "aiortc.rtcdtlstransport:RTCDtlsTransport._handle_rtcp_data",
    "aiortc.rtcdtlstransport:RtpRouter.route_rtp",
    "aiortc.rtcdtlstransport:RtpRouter.route_rtcp",
    "aiortc.rtcrtpreceiver:RTCRtpReceiver._handle_rtp_packet",
    "aiortc.rtcrtpreceiver:RTCRtpReceiver._handle_rtcp_packet",
    "aiortc.rtcrtpreceiver:NackGenerator.add",
    "aiortc.rtcrtpsender:RTCRtpSender._handle_rtcp_packet",
    "aiortc.rtcrtpsender:RTCRtpSender._retransmit",
    "aiortc.codecs.h264:H264PayloadDescriptor.parse",
    "aiortc.codecs.vpx:VpxPayloadDescriptor.parse",
    "aiortc.jitterbuffer:JitterBuffer.add",
]
STUBS = [
    "crc32c -> constant equal to the (zero) checksum field so that every structured datagram passes the checksum; replays carry the real CRC32c",
    "DTLS transport -> datagram list; asyncio.ensure_future/call_later -> run queue / handle recorder; time.time -> fixed instant",
    "hmac digest -> arbitrary 20 bytes (over-approximation of the cookie check)",
    "remote bitrate estimator -> stub returning None (C15's subject); clock.datetime_from_ntp -> now",
]

HARNESSES = {
    "rtp-parse": Harness("rtp-parse", h_rtp_parse, _rtp_jobs, style="NC", bounds="datagram lengths 0..20 (quick set) / every length 0..24; first byte from 6 patterns (V/P/X/CC), all other bytes symbolic; all 7 header extensions configured", encoded=ENC_RTP, opts=NC_OPTS, twin="rtp-parsed"),
    "rtcp-parse": Harness("rtcp-parse", h_rtcp_parse, _rtcp_jobs, style="NC", bounds="lengths 0..20 quick / 0..24 thorough; first byte and packet type fixed per job (8 types x 2-4 first bytes), all other bytes symbolic; RTPFB only as first member of a compound and NACK bitmask bits 2..14 zero (each bitmask bit forks the parser)", encoded=ENC_RTP, opts=NC_OPTS, twin="rtcp-parsed"),
    "h264-descriptor": Harness("h264-descriptor", h_h264, lambda tier: [{"n": n, "first": f} for n in ([0, 1, 2, 3, 5, 8] if tier == "quick" else range(0, 17)) for f in (0x65, 0x7C, 0x78, 0x1E, 0x00) if n or f == 0x65], style="NC", bounds="payload 0..8 (quick) / 0..16 B, NAL header byte from {single, FU-A, STAP-A, unsupported}", encoded=ENC_RTP, opts=NC_OPTS, twin="h264-parsed"),
    "vpx-descriptor": Harness("vpx-descriptor", h_vpx, lambda tier: [{"n": n} for n in (range(0, 9) if tier == "quick" else range(0, 17))], style="NC", bounds="payload 0..8 / 0..16 B fully symbolic", encoded=ENC_RTP, opts=NC_OPTS, twin="vpx-parsed"),
    "sctp": Harness(
        "sctp",
        h_sctp,
        _sctp_jobs,
        style="NC",
        bounds="valid checksum, correct or zero verification tag; first chunk type fixed per job (all 15 known types + one unknown), 4..12 (quick) / 4..16 (all states) and 20, 24 (established, six chunk types) chunk bytes symbolic; association states CLOSED (both roles), COOKIE_WAIT, COOKIE_ECHOED, ESTABLISHED (both roles, 2 outstanding chunks, 1 open channel), SHUTDOWN_ACK_SENT; follow-up valid DATA must be delivered when the first datagram left the receive state untouched",
        encoded=ENC_SCTP,
        stubs=STUBS,
        opts=NC_OPTS,
        twin="follow-up-handled",
    ),
    "sctp-data": Harness(
        "sctp-data",
        h_sctp_data,
        lambda tier: [
            {"k": k, "ppid": p, "same_stream": s, "role": r}
            for k in ([1, 12, 14, 16] if tier == "quick" else [1, 2, 4, 11, 12, 13, 14, 16, 18, 20])
            for p in (50, 53, 56)
            for s in (True, False)
            for r in (("client",) if tier == "quick" else ("client", "server"))
            if not (p in (53, 56) and k > 12 and tier == "quick")
        ]
        # string payloads: every symbolic byte multiplies the UTF-8 decoder's paths by ~4
        + [{"k": k, "ppid": p, "same_stream": True, "role": "client"} for k in ((1, 2, 3) if tier == "quick" else (1, 2, 3, 4, 5)) for p in (51, None)],
        style="NC (structure-aware)",
        bounds="well-formed DATA chunk with the expected TSN; flags 0..7, PPID in {DCEP, string, binary, empty, symbolic}, stream = the open channel or symbolic, 1..16 (quick) / 1..20 symbolic user-data bytes",
        encoded=ENC_SCTP,
        stubs=STUBS,
        opts=NC_OPTS,
        twin="data-handled",
    ),
    "remb-route": Harness("remb-route", h_remb_route, lambda tier: [{"extra": e} for e in (0, 1, 4, 5, 8)], style="NC (structure-aware)", bounds="PSFB/AFB packet whose FCI is 'REMB' + 4..12 symbolic bytes (SSRC count, bitrate, 0..2 SSRC entries, also counts that over-claim), routed by RtpRouter.route_rtcp", encoded=["aiortc.rtcdtlstransport:RtpRouter.route_rtcp", "aiortc.rtp:unpack_remb_fci"], opts=NC_OPTS, twin="remb-routed"),
    "sctp-many-gaps": Harness("sctp-many-gaps", h_sctp_many_gaps, lambda tier: [{"n": n} for n in ((300, 16380) if tier == "quick" else (300, 16379, 16380, 20000))], style="NC (targeted, concrete count)", bounds="300 and 16380 (quick) / 300, 16379, 16380 and 20000 unfilled single-TSN holes in the receive window (every second TSN received), then one more DATA chunk 0 or 3 holes further ahead: the SACK it triggers must not raise (the chunk length field is 16 bit)", encoded=ENC_SCTP, stubs=STUBS, opts={"samples": 1, "path_timeout_s": 600, "max_decisions": 100000}, twin="many-gaps-handled"),
    "sctp-two-data": Harness("sctp-two-data", h_sctp_two_data, lambda tier: [{"role": r} for r in ("client", "server")], style="NC (structure-aware)", bounds="two DATA chunks with independent symbolic 32-bit TSNs, flags 0..7, stream sequence 0..1", encoded=ENC_SCTP, stubs=STUBS, opts=NC_OPTS, twin="two-data-handled"),
    "sctp-then-valid": Harness("sctp-then-valid", h_sctp_then_valid, lambda tier: [{"role": r, "unordered": u} for r in ("client", "server") for u in (False, True)] + [{"role": "client", "unordered": u, "frag": f} for u in (False, True) for f in ("middle", "last")], style="NC + delivery (structure-aware)", bounds="one DATA chunk - a complete message, or a middle / last fragment whose first fragment never comes - with symbolic 32-bit TSN and stream sequence number 2..65535 (ordered or unordered), then two genuine ordered messages", encoded=ENC_SCTP, stubs=STUBS, opts=NC_OPTS, twin="valid-after-bogus-handled"),
    "sack-abandon": Harness("sack-abandon", lambda ctx, **kw: __import__("harness.c06_partial", fromlist=["h_step_sack_abandon"]).h_step_sack_abandon(ctx, **kw), lambda tier: [{"q": 2, "ngaps": 1, "parked": True}, {"q": 2, "ngaps": 2}], style="STEP", bounds="a SACK (symbolic cumulative point and gap blocks) hitting a sender whose partially reliable message is partly transmitted (fragments in flight, unsent tail, symbolic miss counters): processing it must not raise", encoded=ENC_SCTP, stubs=STUBS, twin="sack-over-pr-message-processed", opts={"samples": 1}),
    "recv-next": Harness("recv-next", lambda ctx, **kw: __import__("harness.c04_dtls", fromlist=["h_demux"]).h_demux(ctx, **kw), lambda tier: [{"connected": True, "n": n} for n in (0, 1, 12)], style="NC", bounds="RTCDtlsTransport._recv_next on one datagram of 0, 1 or 12 bytes whose first two bytes are symbolic", encoded=["aiortc.rtcdtlstransport:RTCDtlsTransport._recv_next"], stubs=["SRTP session -> identity recorder; DTLS engine -> recorder; RTP/RTCP handlers -> recorders"], twin="demuxed", opts=NC_OPTS),
    "stray-dcep": Harness("stray-dcep", lambda ctx, **kw: __import__("harness.c13_channel", fromlist=["h_states"]).h_states(ctx, **kw), lambda tier: [{"pre": p, "event": "dcep"} for p in ("connecting", "open", "closing", "closing-requested", "closed")], style="STEP", bounds="one well-formed but unexpected DCEP message (symbolic stream and message byte) reaching a channel in each lifecycle state: its readyState never moves backwards, no second open / close event, nothing escapes", encoded=ENC_SCTP + ["aiortc.rtcsctptransport:RTCSctpTransport._data_channel_receive"], stubs=STUBS, twin="event-processed", opts={"samples": 1}),
    "sctp-sack-then-valid": Harness("sctp-sack-then-valid", h_sctp_sack_then_valid, lambda tier: [{"role": r} for r in ("client", "server")], style="NC + progress (structure-aware)", bounds="one SACK with a symbolic 32-bit cumulative TSN on a sender with two chunks outstanding, then one more message and the genuine SACK for everything sent", encoded=ENC_SCTP, stubs=STUBS, opts=NC_OPTS, twin="sack-after-bogus-sack-handled"),
    "sctp-init-then-valid": Harness("sctp-init-then-valid", h_sctp_init_then_valid, lambda tier: [{"role": r} for r in ("client", "server")], style="NC + delivery (structure-aware)", bounds="one INIT with symbolic initiate tag, rwnd, stream counts and initial TSN on an ESTABLISHED association, then two genuine ordered messages", encoded=ENC_SCTP, stubs=STUBS, opts=NC_OPTS, twin="valid-after-init-handled"),
    "sctp-sack-gaps": Harness("sctp-sack-gaps", h_sctp_sack_gaps, lambda tier: [{"ngaps": g} for g in ((1, 2) if tier == "quick" else (1, 2, 8, 100))], style="NC (targeted, concrete large count)", bounds="SACK with up to 100 maximal gap blocks (0..65535), first block symbolic", encoded=ENC_SCTP, stubs=STUBS, opts=dict(NC_OPTS, path_timeout_s=20), twin="sack-handled"),
    "receiver": Harness("receiver", h_receiver, _recv_jobs, style="NC", bounds="real RTCRtpReceiver (video; VP8, H264 and their RTX), payload 0..8 (quick) / 0..12 symbolic bytes, timestamp/marker/arrival symbolic, payload type / sequence number / SSRC from a fixed set, fresh or one-packet-warm receiver", encoded=ENC_RTP, stubs=STUBS, opts=NC_OPTS, twin="rtp-packet-handled"),
    "dtls-dispatch": Harness("dtls-dispatch", h_dtls_dispatch, _dispatch_jobs, style="NC", bounds="RTP 12..20 (quick) / 2..28 B, RTCP 8..32 / 4..36 B; first two bytes fixed per job", encoded=ENC_RTP, opts=NC_OPTS, twin="dispatched"),
    "sender-rtcp": Harness("sender-rtcp", h_sender_rtcp, _sender_jobs, style="NC", bounds="RTCP 8..20 (quick) / 8..32 B handed to a real RTCRtpSender with a 3-packet history straddling the sequence wrap, RTX on/off", encoded=ENC_RTP, stubs=STUBS, opts=NC_OPTS, twin="sender-handled"),
    "receiver-rtcp": Harness("receiver-rtcp", h_receiver_rtcp, lambda tier: [{"n": 28, "first": 0x80, "ptype": 200}, {"n": 52, "first": 0x81, "ptype": 200}, {"n": 8, "first": 0x81, "ptype": 203}, {"n": 12, "first": 0x82, "ptype": 203}, {"n": 12, "first": 0x81, "ptype": 203, "single": False}], style="NC", bounds="SR (28, 52 B) and BYE (8, 12 B) with all field bytes symbolic, handed to a real RTCRtpReceiver", encoded=ENC_RTP, stubs=STUBS, opts=NC_OPTS, twin="receiver-handled"),
}
