"""Real RTCSctpTransport objects on stub DTLS transports (shared by C01/C02/C05/C06/C13)."""
from __future__ import annotations

import asyncio as _real_asyncio

import aiortc.rtcsctptransport as sctp
from aiortc.rtcdatachannel import RTCDataChannel, RTCDataChannelParameters
from aiortc.rtcsctptransport import RTCSctpTransport

from sx import api as sx

from .util import Patch, StubAsyncio

State = RTCSctpTransport.State


class StubIce:
    def __init__(self, role):
        self.role = role


class StubDtls:
    """DTLS transport stand-in: _send_data appends the datagram to a list."""

    def __init__(self, role="controlling"):
        self.state = "connected"
        self.transport = StubIce(role)
        self.sent = []
        self.receiver = None

    async def _send_data(self, data):
        if self.state != "connected":
            raise ConnectionError("not connected")
        self.sent.append(data)

    def _register_data_receiver(self, r):
        self.receiver = r

    def _unregister_data_receiver(self, r):
        self.receiver = None


class TimeStub:
    def __init__(self, now=1000.0):
        self.now = now

    def time(self):
        return self.now


class _Hmac:
    """hmac.new(...).digest() -> arbitrary 20 bytes (over-approximation) in symbolic mode."""

    def __init__(self, real):
        self._real = real

    def new(self, key, msg, digestmod):
        if not sx.active():
            return self._real.new(key, bytes(msg), digestmod)

        class D:
            @staticmethod
            def digest():
                return sx.cur().bytes("hmac#", 20)

        return D()

    def __getattr__(self, name):
        return getattr(self._real, name)


class Env:
    """Context manager patching the module-level environment of aiortc.rtcsctptransport."""

    def __init__(self, now=1000.0, crc=None):
        self.asyncio = StubAsyncio(_real_asyncio)
        self.time = TimeStub(now)
        self.crc = crc
        self._p = None

    def __enter__(self):
        import hmac

        kw = {"asyncio": self.asyncio, "time": self.time, "hmac": _Hmac(hmac)}
        if self.crc is not None:
            kw["crc32c"] = self.crc
        self._p = Patch(sctp, **kw)
        self._p.__enter__()
        return self

    def __exit__(self, *a):
        self._p.__exit__(*a)

    def drain(self):
        """Run everything handed to asyncio.ensure_future until the queue is empty."""
        return self.asyncio.drain(sx.run)

    # ---------------------------------------------------------------------------------
    def transport(self, role="controlling", established=True, local_tsn=None, remote_tsn=None, vtag=None, rtag=None):
        dtls = StubDtls(role)
        t = RTCSctpTransport(dtls)
        t._remote_port = 5000
        t._data_channel_id = 0 if t.is_server else 1
        if established:
            t._ssthresh = 131072  # set by INIT / INIT-ACK processing in a real association
        if vtag is not None:
            t._local_verification_tag = vtag
        if rtag is not None:
            t._remote_verification_tag = rtag
        if local_tsn is not None:
            t._local_tsn = local_tsn
            t._last_sacked_tsn = sctp.tsn_minus_one(local_tsn)
            t._advanced_peer_ack_tsn = sctp.tsn_minus_one(local_tsn)
            t._reconfig_request_seq = local_tsn
        if remote_tsn is not None:
            t._last_received_tsn = sctp.tsn_minus_one(remote_tsn)
            t._reconfig_response_seq = sctp.tsn_minus_one(remote_tsn)
        if established:
            t._RTCSctpTransport__started = True
            t._RTCSctpTransport__state = "connected"
            t._association_state = State.ESTABLISHED
            t._inbound_streams_count = 65535
            t._remote_partial_reliability = True
            dtls.receiver = t
        return t

    def channel(self, t, label="", protocol="", ordered=True, maxRetransmits=None, maxPacketLifeTime=None, negotiated=False, id=None, opened=True):
        """A data channel on transport t; with opened=True it is registered and open without DCEP."""
        params = RTCDataChannelParameters(
            label=label, protocol=protocol, ordered=ordered, maxRetransmits=maxRetransmits, maxPacketLifeTime=maxPacketLifeTime, negotiated=negotiated, id=id
        )
        if opened:
            ch = RTCDataChannel(t, params, send_open=False)
            if not negotiated:
                t._data_channels[id] = ch
            ch._setReadyState("open")
            return ch
        return RTCDataChannel(t, params)
