"""Helpers shared by harness modules (work in symbolic and concrete mode)."""
from __future__ import annotations


class Patch:
    """Temporarily replace module globals / object attributes."""

    def __init__(self, target, **kw):
        self.target, self.kw, self.old = target, kw, {}

    def __enter__(self):
        for k, v in self.kw.items():
            self.old[k] = getattr(self.target, k)
            setattr(self.target, k, v)
        return self

    def __exit__(self, *a):
        for k, v in self.old.items():
            setattr(self.target, k, v)


class StubLoop:
    """Event-loop stand-in: call_later records a handle that the harness may fire."""

    class Handle:
        def __init__(self, loop, delay, cb, args):
            self.loop, self.delay, self.cb, self.args = loop, delay, cb, args
            self.cancelled = False
            self.fired = False

        def cancel(self):
            self.cancelled = True

        def fire(self):
            self.fired = True
            return self.cb(*self.args)

        @property
        def pending(self):
            return not self.cancelled and not self.fired

    def __init__(self):
        self.handles = []

    def call_later(self, delay, cb, *args):
        h = StubLoop.Handle(self, delay, cb, args)
        self.handles.append(h)
        return h

    def call_soon(self, cb, *args):
        return self.call_later(0, cb, *args)

    def time(self):
        return 0.0

    def create_future(self):
        raise NotImplementedError


class StubAsyncio:
    """`asyncio` stand-in for modules under test: ensure_future queues coroutines for the harness."""

    def __init__(self, real, loop=None):
        self._real = real
        self.loop = loop or StubLoop()
        self.queue = []

    def __getattr__(self, name):
        return getattr(self._real, name)

    def get_event_loop(self):
        return self.loop

    def ensure_future(self, coro):
        self.queue.append(coro)
        return None

    def drain(self, run):
        n = 0
        while self.queue:
            coro = self.queue.pop(0)
            run(coro)
            n += 1
            if n > 1000:
                raise RuntimeError("run queue does not drain")
        return n
