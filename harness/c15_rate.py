"""C15 - receive-side bandwidth estimation (partial: RateCounter, AIMD helpers, orchestration,
REMB encodability; the Kalman / over-use detector pipeline is stubbed, see DESIGN 4 C15)."""
from __future__ import annotations

import aiortc.rate as rate
from aiortc.rate import AimdRateControl, BandwidthUsage, RateCounter, RemoteBitrateEstimator
from aiortc.rtp import pack_remb_fci, unpack_remb_fci

from sx import api as sx
from sx.runner import Harness

PROPERTY = "C15"
MODULES = ["aiortc.rate", "aiortc.rtp", "aiortc.rtcrtpreceiver", "aiortc.jitterbuffer"]
DEADLINE = {"quick": 400, "thorough": 2000}
U32 = 0xFFFFFFFF


def _round_half_even_bounds(ctx, r, num, den, label):
    """r == round(num/den) (half to even) as integer inequalities: |r - num/den| <= 1/2."""
    ctx.check(sx.And(2 * r * den <= 2 * num + den, 2 * r * den >= 2 * num - den), label)


def h_ratecounter(ctx, W, ops):
    """RateCounter with window W: the reported rate covers exactly the adds of the last W ms."""
    rc = RateCounter(W, 8000)
    now = ctx.int("t0", 0, 1 << 20)
    log = []  # (time, size)
    first = None
    for i, op in enumerate(ops):
        if i:
            now = now + ctx.int("gap%d" % i, 0, 2 * W)
        if op == "a":
            size = ctx.int("size%d" % i, 0, 1500)
            rc.add(size, now)
            log.append((now, size))
            if first is None:
                first = now
        else:
            got = rc.rate(now)
            ctx.reach("rate-queried")
            if first is None:
                ctx.check(got is None, "no-rate-before-first-packet")
                continue
            total = 0
            count = 0
            for t, s in log:
                live = t > now - W
                total = total + sx.ite(live, s, 0)
                count = count + sx.ite(live, 1, 0)
            origin = sx.ite(first > now - W + 1, first, now - W + 1)
            active = now - origin + 1
            if sx.active():
                active = sx.concretize_int(active)  # 1..W: keeps the rounding inequality linear
            if got is None:
                ctx.check(sx.Or(count == 0, active <= 1), "rate-none-only-when-window-empty-or-one-ms")
            else:
                ctx.check(sx.And(count > 0, active > 1), "rate-reported-only-with-data")
                ctx.check(got >= 0, "rate-non-negative")
                _round_half_even_bounds(ctx, got, 8000 * total, active, "rate-is-8000-x-bytes-of-last-W-ms-over-active-window")
        # representation invariant: the running total equals the sum of the live buckets
        bsum = 0
        bcount = 0
        for b in rc._buckets:
            bsum = bsum + b.value
            bcount = bcount + b.count
        ctx.check(sx.And(rc._total.value == bsum, rc._total.count == bcount), "Inv-total-equals-sum-of-buckets")
    ctx.observe("total", rc._total.value)


def h_near_max(ctx):
    """_near_max_rate_increase / _additive_rate_increase never raise, result >= 0."""
    a = AimdRateControl()
    a.current_bitrate = ctx.int("current_bitrate", 0, U32)
    a.rtt = ctx.int("rtt", 0, 10000)
    r = a._near_max_rate_increase()
    ctx.reach("near-max-computed")
    ctx.check(r >= 4000, "near-max-increase-at-least-4000")
    last = ctx.int("last_ms", 0, 1 << 40)
    now = last + ctx.int("elapsed", 0, 1 << 20)
    inc = a._additive_rate_increase(last, now)
    ctx.check(inc >= 0, "additive-increase-non-negative")
    ctx.observe("ok", True)


def h_mult_increase(ctx, bitrate):
    """_multiplicative_rate_increase never raises, whatever the idle time since the last change:
    the exponent handed to pow() stays within [0, 1] (elapsed time capped at one second), so
    1.08 ** x cannot overflow; the result is an int >= 1000 (the contract aimd-update assumes)."""
    from .util import Patch

    a = AimdRateControl()
    has_last = bool(ctx.bool("has_last"))
    last = ctx.int("last_ms", 0, 1 << 40) if has_last else None
    now = (last if has_last else 0) + ctx.int("elapsed", 0, 1 << 40)
    exps = []

    def pow_shim(base, exp, mod=None):
        exps.append(exp)
        ctx.check(sx.And(exp >= 0, exp <= 1), "pow-exponent-within-0..1-for-any-idle-time")
        return float(base)  # the largest value the capped exponent allows

    rate.pow = pow_shim  # shadows the builtin inside aiortc.rate only
    try:
        r = a._multiplicative_rate_increase(bitrate, last, now)
    finally:
        del rate.pow
    ctx.reach("mult-increase-computed")
    ctx.check(isinstance(r, int) and r >= 1000, "multiplicative-increase-is-an-int-of-at-least-1000")
    ctx.check(len(exps) == (1 if has_last else 0), "pow-used-once-when-a-previous-change-exists")
    ctx.observe("r", r)


def h_clamp(ctx):
    a = AimdRateControl()
    cur = ctx.int("current_bitrate", 0, U32)
    a.current_bitrate = cur
    new = ctx.int("new_bitrate", 0, 1 << 40)
    T = ctx.int("throughput", 0, U32)
    r = a._clamp_bitrate(new, T)
    ctx.reach("clamped")
    bound = sx.ite((3 * T) // 2 + 10000 > cur, (3 * T) // 2 + 10000, cur)
    ctx.check(r <= bound, "never-above-1.5x-throughput-plus-10k-or-previous")
    ctx.check(r <= new, "clamp-never-raises-the-estimate")
    ctx.check(sx.Implies(new <= bound, r == new), "clamp-is-identity-below-the-bound")
    ctx.observe("r", r)


def h_max_estimate(ctx, has_avg, bits):
    """_update_max_throughput_estimate (float EWMA of the max throughput) never raises - in
    particular no ZeroDivisionError at zero throughput - and keeps var within [0.4, 2.5].  Floats are
    modelled as the exact rationals avg = A/1000, var = V/1000, throughput = T/1000 (A, V, T
    symbolic integers); what IEEE rounding could change is not modelled (approximate reals)."""
    a = AimdRateControl()
    M = (1 << bits) - 1
    if has_avg:
        a.avg_max_bitrate_kbps = ctx.int("avg_milli_kbps", 0, M) / 1000
    else:
        a.avg_max_bitrate_kbps = None
    a.var_max_bitrate_kbps = ctx.int("var_milli", 400, 2500) / 1000
    kbps = ctx.int("T", 0, M) / 1000
    a._update_max_throughput_estimate(kbps)
    ctx.reach("max-estimate-updated")
    ctx.check(sx.And(a.var_max_bitrate_kbps >= 0.4, a.var_max_bitrate_kbps <= 2.5), "variance-stays-clamped")
    ctx.check(a.avg_max_bitrate_kbps >= 0, "average-non-negative")
    ctx.observe("ok", True)


def h_aimd_update(ctx, steps, avg, bits=32):
    """AimdRateControl.update from an arbitrary controller state, `steps` calls in a row: never
    raises; an estimate that rises stays <= 1.5 x latest measurement + 10000; on over-use the
    estimate is <= round(0.85 x latest measurement)."""
    a = AimdRateControl()
    M = (1 << bits) - 1
    a.current_bitrate = ctx.int("current_bitrate", 0, M)
    a.current_bitrate_initialized = bool(ctx.bool("initialized"))
    now = ctx.int("t0", 1 << 20, 1 << 40)
    a.first_estimated_throughput_time = now - ctx.int("since_first", 0, 10000) if ctx.bool("has_first") else None
    has_change = bool(ctx.bool("has_change"))
    a.last_change_ms = now - ctx.int("since_change", 0, 1 << 20) if has_change else None
    a.latest_estimated_throughput = ctx.int("latest", 0, M)
    a.rtt = ctx.int("rtt", 0, 10000)
    # representation invariant of the controller between calls: DECREASE is transient (update()
    # leaves it as HOLD); INCREASE and near_max are only entered together with last_change_ms
    if has_change:
        a.near_max = bool(ctx.bool("near_max"))
        a.state = ctx.choice("state", [rate.RateControlState.HOLD, rate.RateControlState.INCREASE])
    else:
        a.near_max = False
        a.state = rate.RateControlState.HOLD
    a.avg_max_bitrate_kbps = avg
    n_mult = [0]

    def mult(new_bitrate, last_ms, now_ms):  # contract of the pow()-based helper: an int >= 1000
        n_mult[0] += 1
        return ctx.int("mult%d" % n_mult[0], 1000, max(M, 1000))

    def upd_max(kbps):  # float EWMA of the max-throughput estimate: stubbed, keeps avg defined
        if a.avg_max_bitrate_kbps is None:
            a.avg_max_bitrate_kbps = 1000.0

    def additive(last_ms, now_ms):  # contract proved by the aimd-near-max harness: an int >= 0
        n_mult[0] += 1
        return ctx.int("add%d" % n_mult[0], 0, M)

    a._multiplicative_rate_increase = mult
    a._additive_rate_increase = additive
    a._update_max_throughput_estimate = upd_max
    latest = a.latest_estimated_throughput
    for i in range(steps):
        if i:
            now = now + ctx.int("gap%d" % i, 0, 5000)
        usage = ctx.choice("usage%d" % i, [BandwidthUsage.NORMAL, BandwidthUsage.UNDERUSING, BandwidthUsage.OVERUSING])
        T = ctx.int("T%d" % i, 0, M) if ctx.bool("T%d_given" % i) else None
        if T is not None:
            latest = T
        prev = a.current_bitrate
        was_init = a.current_bitrate_initialized
        r = a.update(usage, T, now)
        ctx.reach("updated")
        if r is None:
            ctx.check(not was_init and usage != BandwidthUsage.OVERUSING, "no-estimate-only-while-uninitialised-and-not-overusing")
            continue
        ctx.check(r >= 0, "estimate-non-negative")
        ctx.check(sx.Implies(r > prev, r <= (3 * latest) // 2 + 10000), "estimate-never-rises-above-1.5x-latest-measurement-plus-10k")
        if usage == BandwidthUsage.OVERUSING:
            ctx.check(100 * r <= 85 * latest + 50, "overuse-cuts-to-at-most-85-percent-of-latest-measurement")
        ctx.check(sx.eq(a.current_bitrate, r), "reported-estimate-is-the-controller-state")
    ctx.observe("ok", True)


class _StubInterArrival:
    def compute_deltas(self, timestamp, arrival_time, size):
        return None


class _StubDetector:
    def __init__(self, ctx):
        self.ctx = ctx
        self.n = 0
        self.cur = BandwidthUsage.NORMAL

    def step(self):
        self.n += 1
        self.cur = self.ctx.choice("usage%d" % self.n, [BandwidthUsage.NORMAL, BandwidthUsage.UNDERUSING, BandwidthUsage.OVERUSING])

    def state(self):
        return self.cur


class _StubRateControl:
    """AIMD stand-in for the orchestration harness: an arbitrary estimate or None."""

    def __init__(self, ctx):
        self.ctx = ctx
        self.n = 0
        self.calls = []
        self.on_update = None

    def feedback_interval(self):
        return 500

    def update(self, usage, throughput, now_ms):
        self.n += 1
        self.calls.append((throughput, now_ms))
        if self.on_update is not None:
            self.on_update(throughput, now_ms)
        if self.ctx.bool("rc%d_none" % self.n):
            return None
        # (the 18-bit mantissa / exponent loop of pack_remb_fci forks once per bit beyond 18: the full
        # 64-bit range is C07's remb harness, here 2 exponent steps suffice)
        return self.ctx.int("rc%d_estimate" % self.n, 0, (1 << 20) - 1)


def h_orchestration(ctx, npk, W):
    """RemoteBitrateEstimator.add: SSRC list == SSRCs seen (first-seen order); estimates are
    REMB-encodable.  InterArrival / detector / AIMD stubbed by arbitrary values of their type."""
    e = RemoteBitrateEstimator()
    e.incoming_bitrate = RateCounter(W, 8000)
    e.inter_arrival = _StubInterArrival()
    e.detector = _StubDetector(ctx)
    e.rate_control = _StubRateControl(ctx)
    now = ctx.int("t0", 0, 1 << 30)
    seen = []
    arrivals = []  # ghost: (arrival time, size) of every packet so far

    def on_update(throughput, now_ms):
        # the measurement handed to the controller is computed over exactly the packets that
        # arrived within the last W ms (numerator of the rate)
        total = 0
        for t, s in arrivals:
            total = total + sx.ite(t > now_ms - W, s, 0)
        ctx.check(sx.eq(e.incoming_bitrate._total.value, total), "measurement-covers-exactly-the-packets-of-the-last-window")

    e.rate_control.on_update = on_update
    for i in range(npk):
        if i:
            # small symbolic gaps; estimates are triggered by the first packet and by OVERUSING
            # (a jump past the 500 ms feedback interval makes _erase_old iterate 500+ times per path)
            now = now + ctx.int("gap%d" % i, 0, 2 * W)
        ssrc = ctx.int("ssrc%d" % i, 0, U32)
        e.detector.step()
        size = ctx.int("size%d" % i, 0, 1500)
        arrivals.append((now, size))
        res = e.add(arrival_time_ms=now, abs_send_time=ctx.int("ast%d" % i, 0, 0xFFFFFF), payload_size=size, ssrc=ssrc)
        if not any(bool(s == ssrc) for s in seen):
            seen.append(ssrc)
        ctx.reach("added")
        if res is not None:
            bitrate, ssrcs = res
            ctx.check(sx.deep_eq(list(ssrcs), seen), "ssrc-list-is-exactly-the-ssrcs-seen-in-first-seen-order")
            fci = pack_remb_fci(bitrate, ssrcs)  # must not raise
            dec, dss = unpack_remb_fci(fci)
            ctx.check(sx.And(dec >= 0, dec <= bitrate), "estimate-is-remb-encodable")
            ctx.check(sx.deep_eq(dss, ssrcs), "remb-carries-the-ssrc-list")
    ctx.observe("n", len(seen))


def h_two_estimators(ctx):
    """Two estimators in one process (two video receivers): each REMB lists the SSRCs that this
    estimator has seen, not those of the other one."""
    es = []
    det, rc = _StubDetector(ctx), _StubRateControl(ctx)  # (stand-ins without state of their own: shared)
    for k in range(2):
        e = RemoteBitrateEstimator()
        e.inter_arrival = _StubInterArrival()
        e.detector, e.rate_control = det, rc
        es.append(e)
    a, b = ctx.int("ssrc_a", 0, U32), ctx.int("ssrc_b", 0, U32)
    now = ctx.int("t0", 0, 1 << 30)
    det.step()
    r1 = es[0].add(arrival_time_ms=now, abs_send_time=ctx.int("ast_a", 0, 0xFFFFFF), payload_size=100, ssrc=a)
    r2 = es[1].add(arrival_time_ms=now, abs_send_time=ctx.int("ast_b", 0, 0xFFFFFF), payload_size=100, ssrc=b)
    ctx.reach("both-added")
    if r1 is not None:
        ctx.check(sx.deep_eq(list(r1[1]), [a]), "estimator-lists-only-its-own-ssrcs")
    if r2 is not None:
        ctx.reach("second-estimate")
        ctx.check(sx.deep_eq(list(r2[1]), [b]), "estimator-lists-only-its-own-ssrcs")
    ctx.observe("ok", True)


def h_receiver_feed(ctx, has_ast):
    """RTCRtpReceiver._handle_rtp_packet hands EVERY media packet that carries an abs-send-time
    (any 24-bit value, 0 included) to the estimator, with payload + padding as its size and the
    packet's SSRC, and sends the REMB that the estimator returns."""
    from .c11_nackrtx import SSRC, _mk_receiver
    from aiortc.codecs.vpx import Vp8Encoder
    from aiortc.rtp import RtpPacket

    r = _mk_receiver(False)
    fed, sent = [], []
    want_remb = ctx.choice("estimator_returns_an_estimate", [False, True])

    class Est:
        def add(self, **kw):
            fed.append(kw)
            return (123456, [kw["ssrc"]]) if want_remb else None

    async def send_rtcp(packet):
        sent.append(packet)

    r._RTCRtpReceiver__remote_bitrate_estimator = Est()
    r._send_rtcp = send_rtcp
    p = RtpPacket(payload_type=96, sequence_number=ctx.int("seq", 0, 0xFFFF), timestamp=1000, ssrc=SSRC, marker=1)
    p.payload = Vp8Encoder._packetize(b"\xc0\xc1\xc2", 100)[0]
    p.padding_size = ctx.int("padding", 0, 255)
    ast = ctx.int("abs_send_time", 0, 0xFFFFFF) if has_ast else None
    p.extensions.abs_send_time = ast
    arrival = ctx.int("arrival_ms", 0, 1 << 40)
    sx.run(r._handle_rtp_packet(p, arrival_time_ms=arrival))
    ctx.reach("receiver-fed")
    if has_ast:
        ctx.check(len(fed) == 1, "packet-with-abs-send-time-reaches-the-estimator")
        if fed:
            kw = fed[0]
            ctx.check(sx.And(sx.eq(kw["abs_send_time"], ast), sx.eq(kw["arrival_time_ms"], arrival), sx.eq(kw["payload_size"], len(p.payload) + p.padding_size), sx.eq(kw["ssrc"], SSRC)), "estimator-gets-send-time-arrival-size-and-ssrc")
            rembs = [x for x in sent if type(x).__name__ == "RtcpPsfbPacket" and x.fmt == 15]
            ctx.check(len(rembs) == (1 if want_remb else 0), "remb-sent-iff-the-estimator-returned-one")
    else:
        ctx.check(fed == [], "packet-without-abs-send-time-is-not-fed")
    ctx.observe("fed", len(fed))


def h_many_ssrcs(ctx, n):
    """Targeted, concrete count: n distinct SSRCs must still yield an encodable REMB."""
    e = RemoteBitrateEstimator()
    e.inter_arrival = _StubInterArrival()
    e.detector = _StubDetector(ctx)
    e.rate_control = _StubRateControl(ctx)
    base = 0x10000  # concrete SSRCs: n^2/2 symbolic key comparisons would each be a solver query
    res = None
    for i in range(n):
        res = e.add(arrival_time_ms=1000 + i, abs_send_time=0, payload_size=100, ssrc=base + i) or res
    r = e.add(arrival_time_ms=5000, abs_send_time=ctx.int("ast", 0, 0xFFFFFF), payload_size=ctx.int("size", 0, 1500), ssrc=base)
    ctx.reach("many-added")
    if r is not None:
        pack_remb_fci(*r)
    ctx.observe("ok", True)


def _rc_jobs(tier):
    import itertools

    jobs = []
    Ws = (2, 3) if tier == "quick" else (2, 3, 4, 5, 8)
    for W in Ws:
        k = 4 if tier == "quick" or W > 4 else 5
        for ops in itertools.product("ar", repeat=k):
            s = "".join(ops)
            if "r" not in s or s[0] == "r" and tier == "quick" and W > 2:
                continue
            if tier == "quick" and (s.count("r") > 2 or W == 3 and s not in ("aaar", "arar")):
                continue
            jobs.append({"W": W, "ops": s})
    return jobs


ENC = [
    "aiortc.rate:RateCounter.add",
    "aiortc.rate:RateCounter.rate",
    "aiortc.rate:RateCounter._erase_old",
    "aiortc.rate:RateCounter.reset",
    "aiortc.rate:AimdRateControl._near_max_rate_increase",
    "aiortc.rate:AimdRateControl._additive_rate_increase",
    "aiortc.rate:AimdRateControl._clamp_bitrate",
    "aiortc.rate:RemoteBitrateEstimator.add",
    "aiortc.rtp:pack_remb_fci",
    "aiortc.rtp:unpack_remb_fci",
]
STUBS = [
    "InterArrival.compute_deltas -> None; OveruseDetector.state -> arbitrary BandwidthUsage at every call; AimdRateControl.update (orchestration harness only) -> arbitrary estimate in 0..2^20-1 or None",
    "float arithmetic: quotients of integers are exact rationals (SymRatio); int()/ceil()/round() of them are evaluated exactly on the rational. For a single correctly-rounded division of integers < 2^53 followed by ceil/round this equals the IEEE result unless the quotient is within one ulp of an integer (not possible for the integer/constant quotients used by RateCounter.rate and the packets-per-frame count); for the chained quotient in _near_max_rate_increase the IEEE result may differ by one unit at exact-quotient boundaries, which the asserted bounds (>= 4000, >= 0) do not depend on. Sites are listed in evidence",
]

HARNESSES = {
    "ratecounter": Harness("ratecounter", h_ratecounter, _rc_jobs, style="BMC", bounds="window W = 2 (every add/rate sequence of length 4 with <=2 queries) and W = 3 (two sequences) in the quick tier / W in {2,3,4,5,8} ms, every add/rate sequence of length 4 (5), non-decreasing symbolic times with gaps 0..2W, sizes 0..1500", encoded=ENC, stubs=STUBS, outside=["W = 1000 as deployed (the code is parametric in the window size)"], twin="rate-queried", opts={"samples": 1}),
    "aimd-mult-increase": Harness("aimd-mult-increase", h_mult_increase, lambda tier: [{"bitrate": b} for b in (0, 300000, 4294967295)], style="STEP", bounds="idle time since the last change 0..2^40 ms (symbolic), with / without a previous change; current bitrate 0, 300000 or 2^32-1 (concrete: float product)", encoded=ENC + ["aiortc.rate:AimdRateControl._multiplicative_rate_increase"], stubs=["pow -> checks its exponent lies in [0, 1] and returns the base (the bound on 1.08 ** x for such x)"], twin="mult-increase-computed"),
    "aimd-near-max": Harness("aimd-near-max", h_near_max, lambda tier: [{}], style="STEP", bounds="current_bitrate 0..2^32-1, rtt 0..10000 ms, elapsed 0..2^20 ms", encoded=ENC, stubs=STUBS, twin="near-max-computed"),
    "aimd-max-estimate": Harness("aimd-max-estimate", h_max_estimate, lambda tier: ([{"has_avg": False, "bits": 24}, {"has_avg": True, "bits": 12}] if tier == "quick" else [{"has_avg": False, "bits": 32}, {"has_avg": True, "bits": 16}]), style="STEP", bounds="avg = A/1000 or None, var = V/1000 with V in 400..2500, throughput = T/1000 kbit/s; without a previous average T in 0..2^24-1 (quick) / 2^32-1, with one A, T in 0..2^12-1 (quick) / 2^16-1 (the products are non-linear; 24 bits left one query undecided)", encoded=ENC + ["aiortc.rate:AimdRateControl._update_max_throughput_estimate"], stubs=["floats as exact rationals of symbolic integers (approximate reals): control flow and division-by-zero are decided on the exact values, IEEE rounding is not modelled"], twin="max-estimate-updated"),
    "aimd-clamp": Harness("aimd-clamp", h_clamp, lambda tier: [{}], style="STEP", bounds="current 0..2^32-1, new 0..2^40, throughput 0..2^32-1", encoded=ENC, stubs=STUBS, twin="clamped"),
    "aimd-update": Harness("aimd-update", h_aimd_update, lambda tier: [{"steps": s, "avg": v} for s in ((1, 2) if tier == "quick" else (1, 2, 3)) for v in (None, 1000.0)], style="BMC from an arbitrary controller state", bounds="1..2 (quick) / 1..3 consecutive update() calls from an arbitrary controller state: current_bitrate/latest measurement 0..2^32-1, any state/near_max/initialised flags, measurement present or None, gaps 0..5000 ms; avg_max_bitrate_kbps None or 1000.0 (var 0.4)", encoded=ENC + ["aiortc.rate:AimdRateControl.update"], stubs=STUBS + ["AimdRateControl._multiplicative_rate_increase (pow) -> arbitrary int in 1000..2^32-1; _additive_rate_increase -> arbitrary int in 0..2^40 (its contract, result >= 0 and no exception, is the aimd-near-max harness); _update_max_throughput_estimate (float EWMA) -> sets avg to 1000.0; round(0.85*T): any integer within 1/2 + half-ulp of the exact rational product (over-approximates IEEE rounding)"], outside=["float state avg/var_max_bitrate_kbps other than None/1000.0 (sqrt of symbolic floats)"], twin="updated", opts={"lia": True}),
    "orchestration": Harness("orchestration", h_orchestration, lambda tier: [{"npk": n, "W": 2} for n in ((2,) if tier == "quick" else (2, 3))], style="BMC", bounds="2 (quick) / 2..3 packets with symbolic SSRCs (overlaps solver-decided), arrival gaps 0..2W ms, sizes 0..1500, measurement window W = 2 ms (RateCounter is parametric in W)", encoded=ENC, stubs=STUBS, twin="added", opts={"samples": 1}),
    "two-estimators": Harness("two-estimators", h_two_estimators, lambda tier: [{}], style="REL (two instances)", bounds="two RemoteBitrateEstimator instances in one process, one packet each with symbolic SSRC / send time / arrival time", encoded=["aiortc.rate:RemoteBitrateEstimator.__init__", "aiortc.rate:RemoteBitrateEstimator.add"], stubs=STUBS, twin="second-estimate", opts={"samples": 1}),
    "receiver-feed": Harness("receiver-feed", h_receiver_feed, lambda tier: [{"has_ast": True}, {"has_ast": False}], style="STEP", bounds="one VP8 packet through the real RTCRtpReceiver._handle_rtp_packet: abs-send-time any 24-bit value or absent, padding 0..255, arrival time < 2^40, sequence number symbolic; estimator replaced by a recorder returning an estimate or None", encoded=["aiortc.rtcrtpreceiver:RTCRtpReceiver._handle_rtp_packet"], stubs=["RemoteBitrateEstimator -> recorder", "RTCP sending recorded", "decoder thread replaced by a queue"], twin="receiver-fed", opts={"samples": 1}),
    "many-ssrcs": Harness("many-ssrcs", h_many_ssrcs, lambda tier: [{"n": n} for n in (2, 255, 256)], style="NC (targeted, concrete count)", bounds="2, 255 and 256 distinct SSRCs", encoded=ENC, stubs=STUBS, twin="many-added"),
}
