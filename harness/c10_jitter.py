"""C10 - jitter buffer: whole, ordered frames; bounded; never raises (STEP + BMC)."""
from __future__ import annotations

from aiortc.jitterbuffer import JitterBuffer
from aiortc.rtp import RtpPacket

from sx import api as sx
from sx.runner import Harness

PROPERTY = "C10"
MODULES = ["aiortc.jitterbuffer", "aiortc.utils"]
DEADLINE = {"quick": 240, "thorough": 1500}

M16 = 0xFFFF
NEW_TAG = 0xEE


def _mkpacket(seq, ts, tag):
    p = RtpPacket(sequence_number=seq, timestamp=ts)
    p._data = bytes([tag])
    p._tag = tag
    return p


def _held(jb):
    return [p for p in jb._packets if p is not None]


def _inv(ctx, jb, cap, where):
    """Representation invariant: slot = seq mod C and every held packet is within C of origin."""
    for i, p in enumerate(jb._packets):
        if p is None:
            continue
        ctx.check(p.sequence_number % cap == i, where + "-slot-index")
        ctx.check(((p.sequence_number - jb._origin) & M16) < cap, where + "-within-window")
    ctx.check(len(jb._packets) == cap, where + "-capacity")


def h_step(ctx, cap, prefetch, video):
    """One add() from an arbitrary invariant-satisfying state."""
    jb = JitterBuffer(capacity=cap, prefetch=prefetch, is_video=video)
    origin = ctx.int("origin", 0, M16)
    omod = sx.concretize_int(origin % cap) if sx.active() else origin % cap
    by_tag = {}
    for k in range(cap):
        present = ctx.bool("present%d" % k)
        ts = ctx.int("ts%d" % k, 0, 0xFFFFFFFF)
        if present:
            seq = (origin + k) & M16
            p = _mkpacket(seq, ts, k)
            jb._packets[(omod + k) % cap] = p
            by_tag[k] = p
    jb._origin = origin
    pre_origin = origin
    pre_held = dict(by_tag)

    seq = ctx.int("seq", 0, M16)
    ts = ctx.int("ts", 0, 0xFFFFFFFF)
    newp = _mkpacket(seq, ts, NEW_TAG)
    by_tag[NEW_TAG] = newp
    ctx.reach("before-add")
    pli, frame = jb.add(newp)  # any exception escaping is a violation ("never raises")
    ctx.reach("after-add")

    _inv(ctx, jb, cap, "post")
    post_origin = jb._origin
    delta = (seq - pre_origin) & M16
    misorder = (pre_origin - seq) & M16
    late_reset = sx.And(misorder < delta, misorder >= 100)
    dropped_late = sx.And(misorder < delta, misorder < 100)
    adv = (post_origin - pre_origin) & M16

    frame_tags = []
    if frame is not None:
        ctx.reach("frame-returned")
        frame_tags = list(frame.data)
        ctx.check(len(frame_tags) >= 1, "frame-nonempty")
        ctx.check(len(set(frame_tags)) == len(frame_tags), "frame-no-packet-twice")
        pk = [by_tag[t] for t in frame_tags]
        for a, b in zip(pk, pk[1:]):
            ctx.check(b.sequence_number == ((a.sequence_number + 1) & M16), "frame-consecutive-seq")
        for p in pk:
            ctx.check(p.timestamp == frame.timestamp, "frame-one-timestamp")
        # frame packets lie in [origin_pre, origin_post) unless the buffer was reset
        for p in pk:
            off = (p.sequence_number - pre_origin) & M16
            ctx.check(sx.Or(late_reset, delta >= cap, off < adv), "frame-inside-released-range")
        # the frame starts at the (possibly moved) origin it was cut from and nothing in it stays held
        for p in pk:
            ctx.check(all(h is not p for h in _held(jb)), "frame-packets-removed")
    # origin only moves forward (by less than half the space) unless >=100 late
    # (a jump of exactly half the space is classified as forward by the code: misorder == delta)
    ctx.check(sx.Or(late_reset, adv <= 0x8000), "origin-forward")
    # a dropped late packet changes nothing
    if dropped_late is True or (not isinstance(dropped_late, bool) and bool(dropped_late)):
        ctx.check(frame is None, "late-packet-no-frame")
        ctx.check(post_origin == pre_origin, "late-packet-origin-unchanged")
    # video: packets thrown away (not in the frame, not replaced by a same-sequence duplicate) => PLI
    if video:
        held_after = _held(jb)
        for k, p in pre_held.items():
            gone = all(h is not p for h in held_after)
            if gone and k not in frame_tags:
                replaced = p.sequence_number == seq
                ctx.check(sx.Or(replaced, pli), "pli-when-discarding")
        # overflow eviction ends at a frame boundary: what stays behind the last discarded packet
        # does not begin with the rest of that packet's frame (smart_remove's contract; "only whole
        # frames")
        evicted = [k for k, p in pre_held.items() if all(h is not p for h in held_after) and k not in frame_tags]
        if evicted:
            last = max(evicted)
            rest = [k for k in pre_held if k > last]
            if rest:
                a, b = pre_held[last], pre_held[min(rest)]
                ctx.check(sx.Or(late_reset, a.sequence_number == seq, a.timestamp != b.timestamp), "eviction-ends-at-a-frame-boundary")
    # completeness (prefetch 0): if no frame came back, no complete frame is waiting at the origin,
    # i.e. a run of held packets with one timestamp starting at the origin and followed, anywhere
    # in the window up to its last slot, by a held packet of another timestamp
    if prefetch == 0 and frame is None:
        om2 = sx.concretize_int(jb._origin % cap) if sx.active() else jb._origin % cap
        slots = [jb._packets[(om2 + k) % cap] for k in range(cap)]
        waiting = []
        for m in range(1, cap):
            if all(slots[k] is not None for k in range(m + 1)):
                same = [slots[k].timestamp == slots[0].timestamp for k in range(1, m)]
                waiting.append(sx.And(*(same + [slots[m].timestamp != slots[0].timestamp])))
        if waiting:
            # (a late packet is dropped without looking at the buffer: no release is owed then)
            ctx.check(sx.Or(dropped_late, sx.Not(sx.Or(*waiting))), "complete-frame-at-the-origin-is-released")
    ctx.observe("pli", pli)
    ctx.observe("frame", None if frame is None else (list(frame.data), frame.timestamp))
    ctx.observe("origin", jb._origin)
    ctx.observe("held", sorted(p._tag for p in _held(jb)))


def h_bmc(ctx, cap, prefetch, video, npk):
    """From the constructor: npk packets forming frames, arrival a solver-chosen arrangement with
    displacement < capacity (and possibly duplicates); every frame except the trailing prefetch
    window is released exactly once, byte-identical, in order."""
    jb = JitterBuffer(capacity=cap, prefetch=prefetch, is_video=video)
    origin = ctx.int("origin", 0, M16)
    ts0 = ctx.int("ts0", 0, 0xFFFFFFFF)
    # frame boundaries: newframe[i] says packet i starts a new frame (i>0)
    frame_of = [0]
    for i in range(1, npk):
        nf = ctx.bool("newframe%d" % i)
        frame_of.append(frame_of[-1] + (1 if nf else 0))
    nframes = frame_of[-1] + 1
    pkts = []
    for i in range(npk):
        pkts.append((i, (origin + i) & M16, (ts0 + 3000 * frame_of[i]) & 0xFFFFFFFF))
    # arrival order: the first packet first, then a solver-chosen permutation such that no packet
    # is >= capacity ahead of the oldest packet the buffer still holds ("displaced by less than
    # the capacity"); afterwards in-order single-packet frames flush the buffer.
    remaining = list(range(1, npk))
    released = []

    def origin_index():
        d = (jb._origin - origin) & M16
        return sx.concretize_int(d) if sx.active() else d

    def feed(idx, seq, ts):
        pli, frame = jb.add(_mkpacket(seq, ts, idx))
        if frame is not None:
            released.append((list(frame.data), frame.timestamp))

    feed(*pkts[0])
    for step in range(1, npk):
        oi = origin_index()
        cands = [i for i in remaining if i - oi < cap]
        if not cands:
            raise sx.PathAbort()
        i = ctx.choice("arr%d" % step, cands)
        remaining.remove(i)
        feed(*pkts[i])
    expect = []
    for f in range(nframes):
        tags = [i for i in range(npk) if frame_of[i] == f]
        expect.append((tags, (ts0 + 3000 * f) & 0xFFFFFFFF))
    # flush: enough further in-order frames for the prefetch window to move past the last frame
    nflush = nframes + prefetch + 1
    for j in range(nflush):
        idx = npk + j
        if idx - origin_index() >= cap:
            raise sx.PathAbort()  # would overflow: outside "displaced by less than the capacity"
        feed(idx, (origin + idx) & M16, (ts0 + 3000 * (nframes + j)) & 0xFFFFFFFF)
    for f in range(nframes, nframes + nflush):
        expect.append(([npk + f - nframes], (ts0 + 3000 * f) & 0xFFFFFFFF))
    # released frames are an in-order prefix of the expected ones: whole, byte-identical, once each
    ctx.check(len(released) <= len(expect), "no-extra-frames")
    for r, e in zip(released, expect):
        ctx.check(r[0] == e[0], "frame-bytes-identical")
        ctx.check(r[1] == e[1], "frame-timestamp")
    ctx.check(len(released) >= nframes, "every-frame-released-after-flush")
    ctx.observe("released", released)


def _step_jobs(tier):
    caps = [4] if tier == "quick" else [4, 8]
    jobs = []
    for cap in caps:
        for prefetch in ([0, 1, 2] if tier == "quick" else [0, 1, 2, 3, 4]):
            for video in (False, True):
                if cap == 8 and prefetch not in (0, 2):
                    continue
                jobs.append({"cap": cap, "prefetch": prefetch, "video": video})
    return jobs


def _bmc_jobs(tier):
    jobs = []
    for prefetch in (0, 1, 2):
        for npk in ([3, 4] if tier == "quick" else [3, 4, 5, 6]):
            jobs.append({"cap": 4, "prefetch": prefetch, "video": True, "npk": npk})
    return jobs


def h_receiver_pli(ctx, npk, cap, empty_at=None, rtx=False):
    """The key-frame request reaches the wire: whenever JitterBuffer.add signals pli=True inside
    RTCRtpReceiver._handle_rtp_packet, that call sends a PLI (also when the same add() releases
    a frame)."""
    from aiortc.codecs.vpx import Vp8Encoder

    from aiortc.rtp import wrap_rtx

    from .c11_nackrtx import RTX_SSRC, SSRC, _mk_receiver

    r = _mk_receiver(rtx)
    via_rtx = ctx.choice("packet_arriving_as_a_retransmission", list(range(npk))) if rtx else None
    jb = JitterBuffer(capacity=cap, is_video=True)
    r._RTCRtpReceiver__jitter_buffer = jb
    flags, plis = [], []
    orig_add = jb.add

    def add(packet):
        res = orig_add(packet)
        flags.append(res)
        return res

    async def send_pli(ssrc):
        plis.append(ssrc)

    async def no_nack(ssrc, lost):
        pass

    jb.add = add
    r._send_rtcp_pli = send_pli
    r._send_rtcp_nack = no_nack
    origin = ctx.int("origin", 0, M16)
    both = False
    for i in range(npk):
        off = ctx.int("off%d" % i, 0, cap + 2)
        p = RtpPacket(payload_type=96, sequence_number=(origin + off) & M16, timestamp=(1000 + 90 * off) & 0xFFFFFFFF, ssrc=SSRC, marker=1)
        p.payload = b"" if i == empty_at else Vp8Encoder._packetize(bytes([0xC0 + i] * 3), 100 + i)[0]  # (padding-only packet)
        f0, n0 = len(flags), len(plis)
        if i == via_rtx:
            p = wrap_rtx(p, payload_type=97, sequence_number=500 + i, ssrc=RTX_SSRC)
        sx.run(r._handle_rtp_packet(p, arrival_time_ms=10 * i))
        ctx.reach("receiver-handled")
        ctx.check(len(flags) == f0 + 1, "every-media-packet-reaches-the-jitter-buffer", "packet %d%s" % (i, " (empty payload)" if i == empty_at else ""))
        if len(flags) > f0:
            pli, frame = flags[-1]
            if pli:
                if frame is not None:
                    both = True
                ctx.check(len(plis) > n0, "receiver-sends-pli-when-the-buffer-signals", "frame released in the same call: %s" % (frame is not None))
                ctx.check(all(x == SSRC for x in plis[n0:]), "pli-names-the-media-ssrc", "packet %d%s: %r" % (i, " (arrived as RTX)" if i == via_rtx else "", plis[n0:]))
            else:
                ctx.check(len(plis) == n0, "no-pli-without-signal")
    ctx.observe("plis", len(plis))
    ctx.observe("pli-and-frame-in-one-add", both)


ENC = [
    "aiortc.jitterbuffer:JitterBuffer.add",
    "aiortc.jitterbuffer:JitterBuffer._remove_frame",
    "aiortc.jitterbuffer:JitterBuffer.remove",
    "aiortc.jitterbuffer:JitterBuffer.smart_remove",
    "aiortc.utils:uint16_add",
]

HARNESSES = {
    "receiver-pli": Harness(
        "receiver-pli",
        h_receiver_pli,
        lambda tier: [{"npk": n, "cap": 4} for n in ((4,) if tier == "quick" else (4, 5))] + [{"npk": 3, "cap": 4, "empty_at": 1}, {"npk": 3, "cap": 4, "rtx": True}],
        style="BMC",
        bounds="real RTCRtpReceiver._handle_rtp_packet with a capacity-4 video jitter buffer; 4 (quick) / 4..5 single-packet VP8 frames at offsets 0..6 from a symbolic 16-bit origin, any order; plus 3 packets one of which (solver-chosen) arrives wrapped in RTX on the retransmission SSRC",
        encoded=ENC + ["aiortc.rtcrtpreceiver:RTCRtpReceiver._handle_rtp_packet"],
        stubs=["RTCP sending (_send_rtcp_pli/_send_rtcp_nack) recorded instead of serialised; decoder thread replaced by a queue; bandwidth estimator stubbed"],
        outside=["capacity 128 as deployed"],
        twin="receiver-handled",
        opts={"samples": 1},
    ),
    "step": Harness(
        "step",
        h_step,
        _step_jobs,
        style="STEP",
        bounds="capacity 4 (quick) / 4,8 (thorough); prefetch 0..4; audio+video; origin, occupancy, every seq/timestamp symbolic",
        encoded=ENC,
        outside=["capacities 16 and 128 (code is parametric in the capacity)"],
        twin="frame-returned",
    ),
    "bmc": Harness(
        "bmc",
        h_bmc,
        _bmc_jobs,
        style="BMC",
        bounds="capacity 4, <=4 (quick) / <=6 (thorough) packets in solver-chosen frames, arrival displacement < capacity, origin symbolic",
        encoded=ENC,
        twin="every-frame-released-after-flush",
    ),
}
