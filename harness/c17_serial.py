"""C17 - serial-number arithmetic lemmas (LEMMA) over the full 16/32-bit domains.

The real functions of aiortc.utils / aiortc.rtcsctptransport are executed on symbolic operands;
each lemma is one (or a few) unsat queries, i.e. unbounded in the values.
"""
from __future__ import annotations

from aiortc import utils
from aiortc.rtcsctptransport import tsn_minus_one, tsn_plus_one

from sx import api as sx
from sx.runner import Harness

PROPERTY = "C17"
MODULES = ["aiortc.utils", "aiortc.rtcsctptransport", "aiortc.rtcrtpsender", "aiortc.rtp"]
DEADLINE = {"quick": 300, "thorough": 900}


def _fns(bits):
    if bits == 16:
        return utils.uint16_add, utils.uint16_gt, utils.uint16_gte
    return utils.uint32_add, utils.uint32_gt, utils.uint32_gte


def h_serial(ctx, bits):
    add, gt, gte = _fns(bits)
    M = 1 << bits
    half = M >> 1
    a = ctx.int("a", 0, M - 1)
    b = ctx.int("b", 0, M - 1)
    c = ctx.int("c", 0, M - 1)
    k = ctx.int("k", 1, half - 1)
    gab = gt(a, b)
    gba = gt(b, a)
    dist = (a - b) & (M - 1)
    # antisymmetry: exactly one of gt(a,b), gt(b,a) for a != b less than half the space apart
    ctx.check(sx.Implies(sx.And(a != b, dist != half), sx.Or(sx.And(gab, sx.Not(gba)), sx.And(gba, sx.Not(gab)))), "antisymmetric")
    ctx.check(sx.Not(sx.And(gab, gba)), "never-both")
    ctx.check(sx.Not(gt(a, a)), "irreflexive")
    # gt is "ahead by less than half"
    ctx.check(sx.Iff(gab, sx.And(dist != 0, dist < half)), "gt-is-forward-distance")
    # successor-like steps are greater
    ak = add(a, k)
    ctx.check(sx.And(ak >= 0, ak < M), "add-in-range")
    ctx.check(ak == (a + k) % M, "add-is-modular")
    ctx.check(gt(ak, a), "gt-after-add")
    ctx.check(sx.Not(gt(a, ak)), "not-gt-before-add")
    # gte = gt or equal
    ctx.check(sx.Iff(gte(a, b), sx.Or(gab, a == b)), "gte-def")
    # consistency with modular addition (shift invariance)
    ctx.check(sx.Iff(gab, gt(add(a, c), add(b, c))), "shift-invariant")
    # negative addends as used by the jitter buffer: uint16_add(x, -y)
    nb = add(a, -b)
    ctx.check(nb == (a - b) % M, "add-negative")
    ctx.observe("gab", gab)
    ctx.observe("ak", ak)
    ctx.observe("nb", nb)


def h_tsn(ctx):
    M = 1 << 32
    a = ctx.int("a", 0, M - 1)
    p = tsn_plus_one(a)
    m = tsn_minus_one(a)
    ctx.check(sx.And(p >= 0, p < M, m >= 0, m < M), "range")
    ctx.check(tsn_minus_one(p) == a, "minus-plus")
    ctx.check(tsn_plus_one(m) == a, "plus-minus")
    ctx.check(utils.uint32_gt(p, a), "plus-is-greater")
    ctx.check(utils.uint32_gt(a, m), "minus-is-smaller")
    ctx.check(sx.Iff(a == M - 1, p == 0), "wraps-at-top")
    ctx.observe("p", p)
    ctx.observe("m", m)


from . import c17_crosshair as xh  # noqa: E402
from . import c17_rel as rel  # noqa: E402

REL_ENC = [
    "aiortc.jitterbuffer:JitterBuffer.add",
    "aiortc.rtcrtpreceiver:NackGenerator.add",
    "aiortc.rtcrtpreceiver:NackGenerator.truncate",
    "aiortc.rtcrtpreceiver:StreamStatistics.add",
    "aiortc.rtcrtpreceiver:TimestampMapper.map",
    "aiortc.rtcsctptransport:RTCSctpTransport._mark_received",
    "aiortc.rtcsctptransport:RTCSctpTransport._sorted_misordered",
    "aiortc.rtcsctptransport:RTCSctpTransport._send_sack",
    "aiortc.rtcsctptransport:RTCSctpTransport._receive_sack_chunk",
    "aiortc.rtcsctptransport:InboundStream.add_chunk",
    "aiortc.rtcsctptransport:InboundStream.pop_messages",
]

HARNESSES = {
    "rel-jitter": Harness("rel-jitter", rel.h_rel_jitter, lambda tier: [{"npk": n, "cap": 4, "prefetch": p} for n in ((2, 3) if tier == "quick" else (2, 3, 4)) for p in (0, 2)], style="REL", bounds="2..3 (4) packets at offsets -3..capacity+2 from a symbolic 16-bit origin, frames 0..3 from a symbolic 32-bit timestamp origin, capacity 4; compared with the same scenario at origin 1000", encoded=REL_ENC, twin="rel-jitter-done", opts={"samples": 1}),
    "rel-nack": Harness("rel-nack", rel.h_rel_nack, lambda tier: [{"npk": n} for n in ((2, 3) if tier == "quick" else (2, 3, 4))], style="REL", bounds="2..3 (4) packets at offsets -4..8 from a symbolic origin vs origin 5000", encoded=REL_ENC, twin="rel-nack-done", opts={"samples": 1}),
    "rel-stats": Harness("rel-stats", rel.h_rel_stats, lambda tier: [{"npk": n} for n in ((2, 3) if tier == "quick" else (2, 3, 4))], style="REL", bounds="2..3 (4) packets, sequence offsets -3..6, timestamp offsets 0..9000 from symbolic origins, arrival clock symbolic", encoded=REL_ENC, twin="rel-stats-done", opts={"samples": 1}),
    "rel-tsmap": Harness("rel-tsmap", rel.h_rel_tsmap, lambda tier: [{"n": n} for n in (2, 3, 4)], style="REL", bounds="2..4 non-decreasing timestamps with steps < 2^31 (several trips around the 32-bit space) from a symbolic 32-bit origin", encoded=REL_ENC, twin="rel-tsmap-done", opts={"samples": 1}),
    "rel-sctp-recv": Harness("rel-sctp-recv", rel.h_rel_sctp_recv, lambda tier: [{"layout": l, "k": k} for l in ([1, 1, 1], [2, 1]) for k in ((3,) if tier == "quick" else (3, 4, 5))] + [{"layout": [1, 1, 1], "k": k, "fwd": True} for k in ((3,) if tier == "quick" else (3, 4))], style="REL", bounds="3 chunks (1+1+1 or 2+1 fragments), 3 (quick) / 3..5 solver-chosen arrivals (in one job set also a FORWARD-TSN abandoning the first message), TSN and SSN origins symbolic vs 1000/10; deliveries, cumulative TSN, SACK gap blocks and duplicates compared", encoded=REL_ENC, twin="rel-sctp-recv-done", opts={"samples": 1}),
    "pr-near-wrap": Harness("pr-near-wrap", lambda ctx, **kw: __import__("harness.c06_partial", fromlist=["h_bmc"]).h_bmc(ctx, **kw), lambda tier: [j for j in __import__("harness.c06_partial", fromlist=["_bmc_jobs"])._bmc_jobs(tier) if j.get("near")], style="BMC", bounds="the C06 back-to-back BMC (reliable + partially reliable channel, 3 solver-chosen loss/timer events, loss-free suffix) with the TSN origin just below 2^32: abandonment, FORWARD-TSN and the advanced peer ack point across the wrap", encoded=REL_ENC + ["aiortc.rtcsctptransport:RTCSctpTransport._update_advanced_peer_ack_point", "aiortc.rtcsctptransport:RTCSctpTransport._receive_forward_tsn_chunk"], twin="suffix-done", opts={"samples": 1}),
    "sender-rtx-wrap": Harness("sender-rtx-wrap", lambda ctx, **kw: __import__("harness.c11_nackrtx", fromlist=["h_retransmit"]).h_retransmit(ctx, **kw), lambda tier: [{"rtx": True, "nlost": 2}], style="STEP", bounds="sender with a 3-packet history at a symbolic 16-bit origin and its RTX sequence number at 65535: two retransmissions carry RTX sequence numbers 65535 and 0", encoded=["aiortc.rtcrtpsender:RTCRtpSender._retransmit", "aiortc.rtcrtpsender:RTCRtpSender._handle_rtcp_packet", "aiortc.rtp:wrap_rtx"], twin="nack-handled", opts={"samples": 1}),
    "rel-reconfig": Harness("rel-reconfig", rel.h_rel_reconfig, lambda tier: [{"n": n} for n in ((2,) if tier == "quick" else (2, 3))], style="REL", bounds="2 (quick) / 3 channel closes, each answered, re-configuration request sequence at a symbolic 32-bit origin vs 1000", encoded=REL_ENC + ["aiortc.rtcsctptransport:RTCSctpTransport._transmit_reconfig", "aiortc.rtcsctptransport:RTCSctpTransport._receive_reconfig_param"], twin="rel-reconfig-done", opts={"samples": 1}),
    "rel-sctp-send": Harness("rel-sctp-send", rel.h_rel_sctp_send, lambda tier: [{"q": q, "ngaps": g} for q in ((2, 3) if tier == "quick" else (2, 3, 4)) for g in (0, 1, 2) if not (tier == "quick" and q == 3 and g == 2)], style="REL", bounds="sent queue of 2..3 (4) chunks with symbolic sizes and miss counters, one SACK with symbolic cumulative point and <=2 gap blocks, TSN origin symbolic vs 1000", encoded=REL_ENC, twin="rel-sctp-send-done", opts={"samples": 1}),
    "crosshair-lemmas": Harness("crosshair-lemmas", xh.h_crosshair, lambda tier: [{"bits": 16}, {"bits": 32}], style="LEMMA (second opinion: CrossHair 0.0.110 on the same source text)", bounds="the 7 serial-arithmetic lemmas at 16 and 32 bits and the 2 tsn_plus_one/minus_one lemmas, over the full value ranges; 40 s per condition", encoded=["aiortc.utils:uint16_add", "aiortc.utils:uint16_gt", "aiortc.utils:uint16_gte", "aiortc.utils:uint32_add", "aiortc.utils:uint32_gt", "aiortc.utils:uint32_gte", "aiortc.rtcsctptransport:tsn_plus_one", "aiortc.rtcsctptransport:tsn_minus_one"], twin="crosshair-ran"),
    "serial-lemmas": Harness(
        "serial-lemmas",
        h_serial,
        lambda tier: [{"bits": 16}, {"bits": 32}],
        style="LEMMA",
        bounds="all pairs (a,b), all c, all 0<k<half over the full 16- and 32-bit domains",
        encoded=[
            "aiortc.utils:uint16_add",
            "aiortc.utils:uint16_gt",
            "aiortc.utils:uint16_gte",
            "aiortc.utils:uint32_add",
            "aiortc.utils:uint32_gt",
            "aiortc.utils:uint32_gte",
        ],
        twin="shift-invariant",
    ),
    "tsn-lemmas": Harness(
        "tsn-lemmas",
        h_tsn,
        lambda tier: [{}],
        style="LEMMA",
        bounds="all 32-bit a",
        encoded=["aiortc.rtcsctptransport:tsn_plus_one", "aiortc.rtcsctptransport:tsn_minus_one"],
        twin="plus-is-greater",
    ),
}
