"""C06 - partially reliable channels drop whole messages only and never disturb other channels."""
from __future__ import annotations

from collections import deque

import aiortc.rtcsctptransport as sctp
from aiortc.rtcsctptransport import DataChunk, ForwardTsnChunk, InboundStream

from sx import api as sx
from sx.runner import Harness

from .sctp_env import Env
from .util import Patch

PROPERTY = "C06"
MODULES = ["aiortc.rtcsctptransport", "aiortc.rtcdatachannel", "aiortc.utils"]
DEADLINE = {"quick": 400, "thorough": 2400}
U16, U32 = 0xFFFF, 0xFFFFFFFF
FRAG = 2  # USERDATA_MAX_LENGTH is patched to 2 so that multi-fragment messages stay byte-exact and small


def _crc():
    return (lambda d: 0) if sx.active() else None


def _copy(chunk):
    if isinstance(chunk, DataChunk):
        c = DataChunk(flags=chunk.flags)
        c.tsn, c.stream_id, c.stream_seq, c.protocol, c.user_data = chunk.tsn, chunk.stream_id, chunk.stream_seq, chunk.protocol, chunk.user_data
        return c
    if isinstance(chunk, ForwardTsnChunk):
        c = ForwardTsnChunk()
        c.cumulative_tsn = chunk.cumulative_tsn
        c.streams = list(chunk.streams)
        return c
    return chunk


def h_bmc(ctx, sends, events, cwnd, pr, pr_ordered, near):
    """Two real transports back to back, one reliable ordered channel (id 1) and one partially
    reliable channel (id 3); solver-chosen deliver / drop / duplicate / T3 / clock events."""
    # the TSN origin is symbolic only in the `near` jobs (origins are C17's subject; a symbolic origin
    # makes every serial comparison a solver query, probe: 350 decisions per path)
    oa = ctx.int("origin_a", U32 - 3, U32) if near else 1000
    with Env(crc=_crc()) as env, Patch(sctp, USERDATA_MAX_LENGTH=FRAG):
        a = env.transport("controlling", established=True, local_tsn=oa, remote_tsn=500, vtag=1, rtag=2)
        b = env.transport("controlled", established=True, local_tsn=500, remote_tsn=oa, vtag=2, rtag=1)
        wires = {"ab": [], "ba": []}

        def hook(t, key):
            async def send_chunk(chunk):
                wires[key].append(chunk)

            t._send_chunk = send_chunk

        hook(a, "ab")
        hook(b, "ba")
        kw = {"maxRetransmits": 0} if pr == "rexmit0" else {"maxRetransmits": 1} if pr == "rexmit1" else {"maxPacketLifeTime": 500}
        ra, rb = env.channel(a, id=1), env.channel(b, id=1)
        pa, pb = env.channel(a, id=3, ordered=pr_ordered, **kw), env.channel(b, id=3, ordered=pr_ordered, **kw)
        got = {"r": [], "p": []}
        rb.on("message", lambda m: got["r"].append(m))
        pb.on("message", lambda m: got["p"].append(m))
        a._cwnd = cwnd
        a._ssthresh = 4 * FRAG
        sent = {"r": [], "p": []}
        tag = 0
        for who, nfrag in sends:
            tag += 1
            m = bytes([16 * tag + i for i in range(FRAG * (nfrag - 1) + 1)])
            sent[who].append(m)
            (ra if who == "r" else pa).send(m)
        env.drain()

        def deliver(chunk, dst):
            async def go():
                await dst._receive_chunk(_copy(chunk))
                if dst._sack_needed:
                    await dst._send_sack()

            sx.run(go())
            env.drain()

        def fire_t3():
            a._t3_handle.fired = True
            a._t3_expired()
            env.drain()

        def safety(where):
            # reliable ordered channel: prefix of its sends
            ctx.check(len(got["r"]) <= len(sent["r"]) and all(g == s for g, s in zip(got["r"], sent["r"])), where + "-reliable-channel-prefix-intact")
            # partially reliable channel: exact copies, no duplicates, in order when ordered
            idx = []
            for g in got["p"]:
                ctx.check(g in sent["p"], where + "-pr-delivers-exact-copies-only")
                if g in sent["p"]:
                    idx.append(sent["p"].index(g))
            ctx.check(len(set(idx)) == len(idx), where + "-pr-no-duplicates")
            if pr_ordered:
                ctx.check(idx == sorted(idx), where + "-pr-ordered-channel-in-order")

        for step in range(events):
            opts = []
            for key in ("ab", "ba"):
                for i in range(min(len(wires[key]), 3)):
                    opts.append(("wire", key, i))
            if a._t3_handle is not None and a._t3_handle.pending:
                opts.append(("t3", "a", 0))
            if pr == "timed":
                opts.append(("clock", "", 0))
            if not opts:
                break
            kind, key, i = ctx.choice("ev%d" % step, opts)
            if kind == "wire":
                mode = ctx.choice("mode%d" % step, ["deliver", "drop", "duplicate"])
                chunk = wires[key][i]
                if mode != "duplicate":
                    wires[key].pop(i)
                if mode != "drop":
                    deliver(chunk, b if key == "ab" else a)
            elif kind == "t3":
                fire_t3()
            else:
                env.time.now += 1.0
            safety("bmc")
        ctx.reach("bmc-done")

        def settle():
            for _ in range(40):
                if wires["ab"]:
                    deliver(wires["ab"].pop(0), b)
                elif wires["ba"]:
                    deliver(wires["ba"].pop(0), a)
                elif a._t3_handle is not None and a._t3_handle.pending:
                    fire_t3()
                else:
                    return True
            return False

        ctx.check(settle(), "settles-in-bounded-steps-without-loss")
        safety("settled")
        ctx.check(got["r"] == sent["r"], "reliable-channel-delivers-everything-despite-abandonment-next-door")
        # after recovery, new messages on both channels are delivered (no orphan blocks the stream)
        fresh_p, fresh_r = b"\xf1", b"\xf2"
        sent["p"].append(fresh_p)
        sent["r"].append(fresh_r)
        pa.send(fresh_p)
        ra.send(fresh_r)
        env.drain()
        ctx.check(settle(), "settles-again")
        ctx.reach("suffix-done")
        safety("final")
        ctx.check(len(got["p"]) >= 1 and got["p"][-1] == fresh_p, "fresh-message-on-pr-channel-delivered-after-recovery")
        ctx.check(got["r"] == sent["r"], "fresh-message-on-reliable-channel-delivered")
        ctx.check(len(a._sent_queue) == 0 and len(a._outbound_queue) == 0, "sender-quiescent")
        ctx.check(a._flight_size == 0, "flight-size-zero-at-quiescence")
        ctx.observe("got", [got["r"], got["p"]])


def h_step_forward_tsn(ctx, layout):
    """Receiver: FORWARD-TSN against a symbolic-origin reassembly state on two streams.  Chunks of
    messages that are not missing any TSN up to the new cumulative TSN must survive."""
    origin = ctx.int("origin", 0, U32)
    with Env(crc=_crc()) as env:
        b = env.transport("controlled", established=True, local_tsn=500, remote_tsn=origin)
        rb, pb = env.channel(b, id=1), env.channel(b, id=3, maxRetransmits=0)
        got = {"r": [], "p": []}
        rb.on("message", lambda m: got["r"].append(m))
        pb.on("message", lambda m: got["p"].append(m))
        # layout: per TSN offset a tuple (stream 'r'|'p', flags B/E, arrived?)   offset 0 = origin
        chunks = []
        for off, (who, flags, ssn) in enumerate(layout):
            c = DataChunk(flags=flags)
            c.tsn, c.stream_id, c.stream_seq, c.protocol, c.user_data = (origin + off) & U32, 1 if who == "r" else 3, ssn, 53, bytes([65 + off])
            chunks.append((who, c))
        arrived = []
        for off, (who, c) in enumerate(chunks):
            if who == "r" and ctx.bool("arrived%d" % off):
                arrived.append(off)
                sx.run(b._receive_data_chunk(_copy(c)))
        env.drain()
        # the sender abandons the PR message(s): FORWARD-TSN over the maximal prefix of TSNs that are
        # either PR (abandoned) or reliable-and-received (acked)
        # (the sender advances only over abandoned chunks that follow what the peer has acknowledged
        # cumulatively, RFC 3758 3.5 C1)
        k0 = 0
        while k0 < len(chunks) and k0 in arrived:
            k0 += 1
        k = k0
        while k < len(chunks) and chunks[k][0] == "p":
            k += 1
        if k == k0:
            raise sx.PathAbort()
        fwd = ForwardTsnChunk()
        fwd.cumulative_tsn = (origin + k - 1) & U32
        pr_ssns = [c.stream_seq for who, c in chunks[:k] if who == "p"]
        fwd.streams = [(3, pr_ssns[-1])] if pr_ssns else []
        sx.run(b._receive_forward_tsn_chunk(fwd))
        env.drain()
        ctx.reach("forward-tsn-processed")
        # now the missing reliable chunks arrive
        for off, (who, c) in enumerate(chunks):
            if who == "r" and off not in arrived:
                sx.run(b._receive_data_chunk(_copy(c)))
        env.drain()
        want = []
        cur = b""
        for who, c in chunks:
            if who == "r":
                cur += c.user_data
                if c.flags & 1:
                    want.append(cur)
                    cur = b""
        ctx.check(got["r"] == want, "reliable-messages-survive-forward-tsn-for-another-stream")
        ctx.check(got["p"] == [], "abandoned-pr-message-not-delivered")
        ctx.observe("got", got["r"])


def h_step_sack_abandon(ctx, q, ngaps, parked=False):
    """Sender: one SACK (symbolic cumulative point / gap blocks, miss counters symbolic) while the q
    fragments of one maxRetransmits=0 message are in flight: a third strike abandons the message.
    Flight-size accounting, timer and queue invariants of C02 must survive, and the message is
    abandoned as a whole or not at all."""
    from .c02_drain import _check_inv, _sym_sender

    with Env(crc=_crc()) as env:
        t, base, chunks, sentlog = _sym_sender(ctx, env, q, 0, pr=True)
        env.channel(t, id=3, maxRetransmits=0)
        if parked:
            # the message's last fragment has not been sent yet (window full) and a message of a
            # reliable channel waits behind it in the channel queue
            from .c02_drain import _chunk

            chunks[-1].flags &= ~1
            tail = _chunk((base + q) & U32, ctx.int("tail_book", 1, 1200))
            tail.flags, tail.stream_id, tail._max_retransmits, tail._sent_count = 1, 3, 0, 0
            t._outbound_queue.append(tail)
            t._local_tsn = (base + q + 1) & U32
            rel = env.channel(t, id=1)
            t._data_channel_queue.append((rel, 53, b"R"))
            rel._addBufferedAmount(1)
        _check_inv(ctx, t, "pre")
        s = sctp.SackChunk()
        adv = ctx.int("cum_advance", -1, q + 1)
        ctx.assume(adv <= q + (1 if parked else 0), "the peer acknowledges only TSNs that were assigned")
        s.cumulative_tsn = (base - 1 + adv) & U32
        s.advertised_rwnd = 131072
        s.gaps = [(ctx.int("gap%d_start" % g, 1, q + 2), ctx.int("gap%d_end" % g, 1, q + 2)) for g in range(ngaps)]
        sx.run(t._receive_sack_chunk(s))
        env.drain()
        ctx.reach("sack-over-pr-message-processed")
        _check_inv(ctx, t, "post")
        left = [c for c in chunks if any(c is x for x in t._sent_queue)]
        if left:
            ab = [c._abandoned for c in left]
            ctx.check(sx.Or(sx.And(*ab), sx.Not(sx.Or(*ab))), "message-abandoned-as-a-whole-or-not-at-all")
        ctx.observe("flight", t._flight_size)
        ctx.observe("left", len(left))


def h_step_abandon_neighbour(ctx, trigger):
    """Sender: a one-chunk maxRetransmits=0 message is abandoned (third SACK strike or T3) while a
    reliable message is only partly transmitted behind it (first fragment in flight, tail still
    queued).  Nothing of the reliable message may be abandoned."""
    from .c02_drain import _check_inv, _chunk

    with Env(crc=_crc()) as env:
        base = ctx.int("base_tsn", 0, U32)
        t = env.transport("controlling", established=True, local_tsn=base, remote_tsn=77)
        sent = []

        async def rec(chunk):
            sent.append(chunk)

        t._send_chunk = rec
        env.channel(t, id=3, maxRetransmits=0)
        env.channel(t, id=1)
        pr = _chunk(base, ctx.int("pr_book", 1, 1200))
        pr.stream_id, pr._max_retransmits, pr._misses = 3, 0, 2
        r1 = _chunk((base + 1) & U32, 1200)
        r1.flags, r1.stream_id = 2, 1  # first fragment of the reliable message, in flight
        r2 = _chunk((base + 2) & U32, ctx.int("tail_book", 1, 1200))
        r2.flags, r2.stream_id, r2._sent_count = 1, 1, 0  # its last fragment, not sent yet
        t._sent_queue = deque([pr, r1])
        t._outbound_queue.append(r2)
        t._local_tsn = (base + 3) & U32
        t._last_sacked_tsn = (base - 1) & U32
        t._advanced_peer_ack_tsn = (base - 1) & U32
        t._cwnd = 1200 + pr._book_size  # window full: the tail has to wait
        t._flight_size = pr._book_size + 1200
        t._t3_start()
        _check_inv(ctx, t, "pre")
        if trigger == "sack":
            s = sctp.SackChunk()
            s.cumulative_tsn = (base - 1) & U32
            s.advertised_rwnd = 131072
            s.gaps = [(2, 2)]  # the reliable fragment arrived, the PR chunk is reported missing again
            sx.run(t._receive_sack_chunk(s))
        else:
            t._t3_handle.fired = True
            t._t3_expired()
        env.drain()
        ctx.reach("neighbour-abandon-processed")
        ctx.check(pr._abandoned, "the-partially-reliable-message-is-abandoned")
        ctx.check(not r1._abandoned and not r2._abandoned, "abandonment-stops-at-the-message-boundary", "r1=%s r2=%s" % (r1._abandoned, r2._abandoned))
        _check_inv(ctx, t, "post")
        ctx.observe("sent", len(sent))


def h_step_forward_gap(ctx, have):
    """Receiver, ordered PR stream: a 3-fragment message with some fragments missing is abandoned
    while the two complete messages sent after it have already arrived.  The FORWARD-TSN itself
    must release them - no further DATA chunk may be needed."""
    origin = ctx.int("origin", 0, U32)
    s0 = ctx.int("ssn_origin", 0, 0xFFFF)
    with Env(crc=_crc()) as env:
        b = env.transport("controlled", established=True, local_tsn=500, remote_tsn=origin)
        pb = env.channel(b, id=3, maxRetransmits=0)
        b._get_inbound_stream(3).sequence_number = s0
        got = []
        pb.on("message", lambda m: got.append(m))

        def mk(k, flags, ssn, payload):
            c = DataChunk(flags=flags)
            c.tsn, c.stream_id, c.stream_seq, c.protocol, c.user_data = (origin + k) & U32, 3, ssn & 0xFFFF, 53, payload
            return c

        frags = [mk(0, L_B, s0, b"a"), mk(1, 0, s0, b"b"), mk(2, L_E, s0, b"c")]
        later = [mk(3, L_B | L_E, s0 + 1, b"B"), mk(4, L_B | L_E, s0 + 2, b"C")]
        for k in have:  # which fragments of the abandoned message did arrive
            sx.run(b._receive_data_chunk(frags[k]))
        for c in later:
            sx.run(b._receive_data_chunk(c))
        env.drain()
        ctx.check(got == [], "nothing-delivered-behind-an-incomplete-ordered-message")
        fwd = ForwardTsnChunk()
        fwd.cumulative_tsn = (origin + 2) & U32
        fwd.streams = [(3, s0)]
        sx.run(b._receive_forward_tsn_chunk(fwd))
        env.drain()
        ctx.reach("forward-tsn-over-gap-processed")
        ctx.check(got == [b"B", b"C"], "messages-behind-the-abandoned-one-are-released-by-the-forward-tsn", repr(got))
        ctx.check(len(b._get_inbound_stream(3).reassembly) == 0, "nothing-left-in-reassembly")
        ctx.observe("got", [bytes(m) for m in got])


def h_step_forward_acked(ctx, q, parked=False):
    """Sender: a FORWARD-TSN over j abandoned chunks is outstanding (with its stream entry) in front
    of q ordinary outstanding chunks; one SACK arrives.  Once the peer's cumulative TSN covers the
    forward point, the stream bookkeeping of that FORWARD-TSN is gone - a later FORWARD-TSN must not
    name old (stream, sequence) pairs again; until then it stays and T3 stays armed."""
    from .c02_drain import _check_inv, _sym_sender

    with Env(crc=_crc()) as env:
        t, base, chunks, sentlog = _sym_sender(ctx, env, q, 0)
        j = ctx.int("abandoned_before", 1, 3)
        ssn = ctx.int("fwd_ssn", 0, 0xFFFF)
        t._last_sacked_tsn = (base - 1 - j) & U32
        t._advanced_peer_ack_tsn = (base - 1) & U32
        t._forward_tsn_streams = sx.SymDict() if sx.active() else {}
        t._forward_tsn_streams[3] = ssn
        t._build_forward_tsn()
        t._forward_tsn_chunk = None  # it has been transmitted (_transmit sends it in the same call that builds it)
        if not q:
            t._t3_start()
        if parked:
            rel = env.channel(t, id=1)
            t._data_channel_queue.append((rel, 53, b"R"))
            rel._addBufferedAmount(1)
        _check_inv(ctx, t, "pre")
        s = sctp.SackChunk()
        adv = ctx.int("cum_advance", -4, q)
        ctx.assume(adv >= -j - 1)
        s.cumulative_tsn = (base - 1 + adv) & U32
        s.advertised_rwnd = 131072
        s.gaps = []
        sx.run(t._receive_sack_chunk(s))
        env.drain()
        ctx.reach("sack-over-forward-tsn-processed")
        _check_inv(ctx, t, "post")
        acked = adv >= 0
        if acked is True or (not isinstance(acked, bool) and bool(acked)):
            ctx.check(len(t._forward_tsn_streams) == 0 and not t._forward_tsn_outstanding(), "acknowledged-forward-tsn-leaves-no-stream-entries")
        else:
            ctx.check(t._forward_tsn_outstanding() and len(t._forward_tsn_streams) == 1, "unacknowledged-forward-tsn-keeps-its-stream-entries")
        ctx.observe("left", len(t._sent_queue))


def h_step_forward_held(ctx, held):
    """Receiver, ordered PR stream: message s0 is lost and abandoned, `held` later messages were
    received and are waiting behind it when the FORWARD-TSN arrives; afterwards the sender's next
    two messages arrive in swapped order.  Whatever is delivered must be in sending order."""
    origin = ctx.int("origin", 0, U32)
    s0 = ctx.int("ssn_origin", 0, 0xFFFF)
    with Env(crc=_crc()) as env:
        b = env.transport("controlled", established=True, local_tsn=500, remote_tsn=origin)
        pb = env.channel(b, id=3, maxRetransmits=0)
        b._get_inbound_stream(3).sequence_number = s0
        got = []
        pb.on("message", lambda m: got.append(m))

        def mk(k):
            c = DataChunk(flags=L_B | L_E)
            c.tsn, c.stream_id, c.stream_seq, c.protocol, c.user_data = (origin + k) & U32, 3, (s0 + k) & 0xFFFF, 53, bytes([65 + k])
            return c

        for k in range(1, held + 1):  # message 0 never arrives
            sx.run(b._receive_data_chunk(mk(k)))
        env.drain()
        ctx.check(got == [], "nothing-delivered-behind-a-missing-ordered-message")
        fwd = ForwardTsnChunk()
        fwd.cumulative_tsn = (origin + held) & U32
        fwd.streams = [(3, (s0 + held) & 0xFFFF)]
        sx.run(b._receive_forward_tsn_chunk(fwd))
        env.drain()
        ctx.reach("forward-tsn-over-held-processed")
        ctx.check(sx.eq(b._get_inbound_stream(3).sequence_number, (s0 + held + 1) & 0xFFFF), "expected-sequence-number-follows-the-forward-tsn")
        for k in (held + 2, held + 1):  # the next two messages, swapped
            sx.run(b._receive_data_chunk(mk(k)))
            env.drain()
        order = [m[0] - 65 for m in got]
        ctx.check(order == sorted(order) and len(set(order)) == len(order), "delivered-in-sending-order-without-duplicates", repr(order))
        ctx.check(order[-2:] == [held + 1, held + 2], "messages-after-the-forward-point-are-delivered", repr(order))
        ctx.observe("order", order)


def h_step_abandon(ctx, nfrag, nsent, pos):
    """Sender: when a message is abandoned all of its fragments - sent and still queued - go."""
    with Env(crc=_crc()) as env, Patch(sctp, USERDATA_MAX_LENGTH=FRAG):
        base = ctx.int("base", 0, U32)
        a = env.transport("controlling", established=True, local_tsn=base, remote_tsn=500)
        log = []

        async def rec(chunk):
            log.append(chunk)

        a._send_chunk = rec
        pa = env.channel(a, id=3, maxRetransmits=0)
        ra = env.channel(a, id=1)
        a._cwnd = FRAG * nsent  # only nsent fragments fit the window
        a._ssthresh = 4 * FRAG
        pa.send(bytes(range(1, FRAG * (nfrag - 1) + 2)))
        ra.send(b"R")
        env.drain()
        msg_tsns = [(base + i) & U32 for i in range(nfrag)]
        ctx.check(len(a._sent_queue) >= 1, "something-sent")
        # T3: the fragment(s) in flight are abandoned (maxRetransmits=0)
        a._t3_handle.fired = True
        a._t3_expired()
        env.drain()
        ctx.reach("abandoned")
        # whatever the sender transmits from now on must not belong to the abandoned message
        del log[:]
        for _ in range(6):
            if not a._sent_queue and not a._outbound_queue:
                break
            # acknowledge everything outstanding
            s = sctp.SackChunk()
            s.cumulative_tsn = a._sent_queue[-1].tsn if a._sent_queue else a._last_sacked_tsn
            s.advertised_rwnd = 131072
            sx.run(a._receive_sack_chunk(s))
            env.drain()
        for c in log:
            if isinstance(c, DataChunk):
                ctx.check(sx.And(*[c.tsn != t for t in msg_tsns]), "no-fragment-of-an-abandoned-message-is-transmitted-later")
        fw = [c for c in log if isinstance(c, ForwardTsnChunk)]
        ctx.check(len(a._outbound_queue) == 0 and len(a._sent_queue) == 0, "queues-drain-after-abandonment")
        ctx.observe("n", len(log))


L_B, L_E = 2, 1


def _fwd_layouts(tier):
    # (stream, flags, ssn) per consecutive TSN
    # fragments of one message carry consecutive TSNs (RFC 4960 6.9; _send assigns them in one go)
    lay = [
        [("r", L_B, 0), ("r", L_E, 0), ("p", L_B | L_E, 0), ("r", L_B, 1), ("r", L_E, 1)],
        [("p", L_B | L_E, 0), ("r", L_B, 0), ("r", L_E, 0)],
        [("p", L_B | L_E, 0), ("r", L_B | L_E, 0)],
        [("r", L_B | L_E, 0), ("p", L_B, 0), ("p", L_E, 0), ("r", L_B | L_E, 1)],
    ]
    if tier == "thorough":
        lay += [
            [("r", L_B, 0), ("r", 0, 0), ("r", L_E, 0), ("p", L_B, 0), ("p", L_E, 0), ("r", L_B | L_E, 1)],
            [("p", L_B | L_E, 0), ("r", L_B, 0), ("r", L_E, 0), ("p", L_B | L_E, 1), ("r", L_B | L_E, 1)],
        ]
    return [{"layout": x} for x in lay]


def _bmc_jobs(tier):
    jobs = []
    scen = [
        ([("p", 2), ("r", 1)], 2 * FRAG),
        ([("r", 2), ("p", 1)], 8 * FRAG),
        ([("p", 1), ("r", 1), ("p", 1)], 8 * FRAG),
        ([("p", 2), ("r", 1)], FRAG),
    ]
    if tier == "thorough":
        scen += [([("p", 3), ("r", 1)], FRAG), ([("r", 1), ("p", 2), ("r", 1)], 2 * FRAG), ([("p", 2), ("p", 1)], FRAG)]
    for sends, cwnd in scen:
        for pr in ("rexmit0",) if tier == "quick" else ("rexmit0", "rexmit1", "timed"):
            for po in (True, False):
                jobs.append({"sends": sends, "events": 3 if tier == "quick" else 4, "cwnd": cwnd, "pr": pr, "pr_ordered": po, "near": False})
    jobs.append({"sends": scen[0][0], "events": 3, "cwnd": scen[0][1], "pr": "rexmit0", "pr_ordered": True, "near": True})
    return jobs


ENC = [
    "aiortc.rtcsctptransport:RTCSctpTransport._maybe_abandon",
    "aiortc.rtcsctptransport:RTCSctpTransport._update_advanced_peer_ack_point",
    "aiortc.rtcsctptransport:RTCSctpTransport._transmit",
    "aiortc.rtcsctptransport:RTCSctpTransport._receive_forward_tsn_chunk",
    "aiortc.rtcsctptransport:InboundStream.prune_chunks",
    "aiortc.rtcsctptransport:InboundStream.pop_messages",
    "aiortc.rtcsctptransport:RTCSctpTransport._t3_expired",
    "aiortc.rtcsctptransport:RTCSctpTransport._receive_sack_chunk",
    "aiortc.rtcsctptransport:RTCSctpTransport._send",
    "aiortc.rtcsctptransport:RTCSctpTransport._data_channel_flush",
]
STUBS = [
    "USERDATA_MAX_LENGTH patched to 2 (byte-exact multi-fragment messages)",
    "time.time -> harness-controlled clock (advanced by solver-chosen 1 s steps for lifetime-limited channels)",
    "_send_chunk -> in-memory wire carrying chunk objects",
    "loop.call_later / asyncio.ensure_future -> handle recorder / run queue",
]

HARNESSES = {
    "bmc": Harness("bmc", h_bmc, _bmc_jobs, style="BMC", bounds="2 channels (reliable ordered + partially reliable: maxRetransmits 0/1 or lifetime, ordered/unordered); <=3 messages of <=2 (3) fragments; cwnd of 1, 2 or 8 fragments; 3 (quick) / 4 solver-chosen events; then a loss-free suffix and one fresh message per channel", encoded=ENC, stubs=STUBS, twin="suffix-done", opts={"samples": 1}),
    "step-forward-tsn": Harness("step-forward-tsn", h_step_forward_tsn, _fwd_layouts, style="STEP", bounds="4 (quick) / 6 interleavings of reliable and abandoned PR fragments over consecutive TSNs with symbolic origin; which reliable fragments arrived before the FORWARD-TSN is solver-chosen", encoded=ENC, stubs=STUBS, twin="forward-tsn-processed"),
    "flush-params": Harness("flush-params", lambda ctx, **kw: __import__("harness.c13_channel", fromlist=["h_flush_params"]).h_flush_params(ctx, **kw), lambda tier: [{"n": n} for n in ((2,) if tier == "quick" else (2, 3))], style="BMC over configurations", bounds="messages of partially reliable, unordered and reliable channels flushed in one call (solver-chosen kinds and order): each is handed to _send with its own channel's lifetime / retransmission limit / ordering", encoded=ENC + ["aiortc.rtcsctptransport:RTCSctpTransport._data_channel_flush"], stubs=STUBS + ["RTCSctpTransport._send -> recorder"], twin="flushed", opts={"samples": 1}),
    "step-sack-abandon": Harness("step-sack-abandon", h_step_sack_abandon, lambda tier: [{"q": q, "ngaps": g} for q in ((2, 3) if tier == "quick" else (2, 3, 4)) for g in (1, 2) if not (tier == "quick" and q == 3 and g == 2)] + [{"q": 2, "ngaps": g, "parked": True} for g in ((1,) if tier == "quick" else (1, 2))], style="STEP", bounds="one maxRetransmits=0 message of 2..3 (4) fragments in flight with symbolic sizes, miss counters and gap-ack flags; one SACK with symbolic cumulative point and <=2 gap blocks; TSN origin symbolic", encoded=ENC, stubs=STUBS, twin="sack-over-pr-message-processed", opts={"samples": 1}),
    "step-forward-acked": Harness("step-forward-acked", h_step_forward_acked, lambda tier: [{"q": q} for q in ((0, 1) if tier == "quick" else (0, 1, 2))] + [{"q": 0, "parked": True}], style="STEP", bounds="FORWARD-TSN over 1..3 abandoned chunks outstanding (in one job with a reliable channel's message parked in the channel queue) with one (stream, sequence) entry, 0..1 (quick) / 0..2 further outstanding chunks in arbitrary state, one SACK with symbolic cumulative point; TSN origin symbolic", encoded=ENC, stubs=STUBS, twin="sack-over-forward-tsn-processed", opts={"samples": 1}),
    "step-abandon-neighbour": Harness("step-abandon-neighbour", h_step_abandon_neighbour, lambda tier: [{"trigger": x} for x in ("sack", "t3")], style="STEP", bounds="one-chunk PR message (symbolic size) followed by a two-fragment reliable message whose tail is still unsent; third SACK strike or T3; TSN origin symbolic", encoded=ENC, stubs=STUBS, twin="neighbour-abandon-processed", opts={"samples": 1}),
    "step-forward-gap": Harness("step-forward-gap", h_step_forward_gap, lambda tier: [{"have": h} for h in ([0, 2], [0], [2], [], [0, 1], [1, 2])], style="STEP", bounds="ordered PR stream at symbolic TSN / stream-sequence origins: a 3-fragment message of which a solver-independent subset (6 cases) arrived is abandoned; the two later complete messages arrived before the FORWARD-TSN", encoded=ENC, stubs=STUBS, twin="forward-tsn-over-gap-processed", opts={"samples": 1}),
    "step-forward-held": Harness("step-forward-held", h_step_forward_held, lambda tier: [{"held": h} for h in ((0, 1) if tier == "quick" else (0, 1, 2))], style="STEP", bounds="ordered PR stream at a symbolic 16-bit sequence origin and 32-bit TSN origin: one lost message, 0..1 (quick) / 0..2 received messages held behind it, FORWARD-TSN over all of them, then the next two messages in swapped order", encoded=ENC, stubs=STUBS, twin="forward-tsn-over-held-processed", opts={"samples": 1}),
    "step-abandon": Harness("step-abandon", h_step_abandon, lambda tier: [{"nfrag": n, "nsent": s, "pos": 0} for n in (2, 3) for s in range(1, n + 1)], style="STEP", bounds="PR message of 2..3 fragments of which 1..n are in flight when T3 abandons it; TSN origin symbolic", encoded=ENC, stubs=STUBS, twin="abandoned"),
}
