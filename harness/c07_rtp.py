"""C07 - RTP / RTCP round trip with exact field semantics (RT + LEMMA)."""
from __future__ import annotations

from aiortc import rtp
from aiortc.rtcrtpparameters import RTCRtpHeaderExtensionParameters, RTCRtpParameters
from aiortc.rtp import (
    HeaderExtensions,
    HeaderExtensionsMap,
    RtcpByePacket,
    RtcpPacket,
    RtcpPsfbPacket,
    RtcpReceiverInfo,
    RtcpRrPacket,
    RtcpRtpfbPacket,
    RtcpSdesPacket,
    RtcpSenderInfo,
    RtcpSourceInfo,
    RtcpSrPacket,
    RtpPacket,
)

from sx import api as sx
from sx.runner import Harness

PROPERTY = "C07"
MODULES = ["aiortc.rtp"]
DEADLINE = {"quick": 400, "thorough": 2400}

U8, U16, U24, U32, U64 = 0xFF, 0xFFFF, 0xFFFFFF, 0xFFFFFFFF, (1 << 64) - 1

EXT_URIS = [
    ("mid", "urn:ietf:params:rtp-hdrext:sdes:mid"),
    ("repaired_rtp_stream_id", "urn:ietf:params:rtp-hdrext:sdes:repaired-rtp-stream-id"),
    ("rtp_stream_id", "urn:ietf:params:rtp-hdrext:sdes:rtp-stream-id"),
    ("abs_send_time", "http://www.webrtc.org/experiments/rtp-hdrext/abs-send-time"),
    ("transmission_offset", "urn:ietf:params:rtp-hdrext:toffset"),
    ("audio_level", "urn:ietf:params:rtp-hdrext:ssrc-audio-level"),
    ("transport_sequence_number", "http://www.ietf.org/id/draft-holmer-rmcat-transport-wide-cc-extensions-01"),
]


def _ext_map(ctx, mask, himask):
    """HeaderExtensionsMap with solver-chosen distinct ids for the URIs selected by mask;
    ids of the extensions in himask are drawn from 15..255 (two-byte form), the others from 1..14."""
    ids = []
    exts = []
    for i, (name, uri) in enumerate(EXT_URIS):
        if mask & (1 << i):
            x = ctx.int("id_" + name, 15, 255) if himask & (1 << i) else ctx.int("id_" + name, 1, 14)
            for y in ids:
                ctx.assume(x != y)
            ids.append(x)
            exts.append(RTCRtpHeaderExtensionParameters(id=x, uri=uri))
    m = HeaderExtensionsMap()
    m.configure(RTCRtpParameters(headerExtensions=exts))
    return m


def _ext_values(ctx, mask, midlen, ridlen):
    v = HeaderExtensions()
    if mask & 1:
        # full Unicode for short mids; the 16/17-char mids (one-/two-byte length flip) are ASCII,
        # otherwise the UTF-8 encoder forks 4^17 ways
        v.mid = ctx.str("mid", midlen, 0, 0x10FFFF if midlen <= 2 else 0x7F)
    if mask & 2:
        v.repaired_rtp_stream_id = ctx.str("rrid", ridlen, 0, 0x7F)
    if mask & 4:
        v.rtp_stream_id = ctx.str("rid", ridlen, 0, 0x7F)
    if mask & 8:
        v.abs_send_time = ctx.int("abs_send_time", 0, U24)
    if mask & 16:
        v.transmission_offset = ctx.int("toffset", -(1 << 23), (1 << 23) - 1)
    if mask & 32:
        v.audio_level = (ctx.bool("vad"), ctx.int("level", 0, 127))
    if mask & 64:
        v.transport_sequence_number = ctx.int("twcc", 0, U16)
    return v


def h_rtp(ctx, ncsrc, plen, pad, mask, midlen, ridlen, himask):
    m = _ext_map(ctx, mask, himask)
    p = RtpPacket(
        payload_type=ctx.int("pt", 0, 127),
        marker=ctx.int("marker", 0, 1),
        sequence_number=ctx.int("seq", 0, U16),
        timestamp=ctx.int("ts", 0, U32),
        ssrc=ctx.int("ssrc", 0, U32),
        payload=ctx.bytes("payload", plen),
    )
    p.csrc = [ctx.int("csrc%d" % i, 0, U32) for i in range(ncsrc)]
    p.extensions = _ext_values(ctx, mask, midlen, ridlen)
    p.padding_size = pad
    data = p.serialize(m)
    ctx.reach("serialized")
    q = RtpPacket.parse(data, m)
    ctx.reach("parsed")
    for f in ("version", "marker", "payload_type", "sequence_number", "timestamp", "ssrc", "padding_size"):
        ctx.check(sx.eq(getattr(q, f), getattr(p, f)), "rtp-field-" + f)
    ctx.check(sx.deep_eq(q.csrc, p.csrc), "rtp-csrc")
    ctx.check(sx.eq(q.payload, p.payload), "rtp-payload")
    for name, _ in EXT_URIS:
        a, b = getattr(p.extensions, name), getattr(q.extensions, name)
        if name == "audio_level" and a is not None and b is not None:
            ctx.check(sx.And(sx.Iff(a[0], b[0]), sx.eq(a[1], b[1])), "rtp-ext-" + name)
        else:
            ctx.check(sx.deep_eq(a, b), "rtp-ext-" + name)
    data2 = q.serialize(m)
    ctx.check(len(data2) == len(data), "rtp-reserialize-length")
    if len(data2) == len(data):
        n = len(data) - pad
        ctx.check(sx.eq(data2[:n], data[:n]), "rtp-reserialize-bytes")
        if pad:
            ctx.check(sx.eq(data2[-1], data[-1]), "rtp-reserialize-padlen")
    ctx.observe("data_no_pad", data[: len(data) - pad])
    ctx.observe("payload", q.payload)


def _receiver_info(ctx, i):
    return RtcpReceiverInfo(
        ssrc=ctx.int("r%d_ssrc" % i, 0, U32),
        fraction_lost=ctx.int("r%d_fraction" % i, 0, U8),
        packets_lost=ctx.int("r%d_lost" % i, -(1 << 23), (1 << 23) - 1),
        highest_sequence=ctx.int("r%d_highest" % i, 0, U32),
        jitter=ctx.int("r%d_jitter" % i, 0, U32),
        lsr=ctx.int("r%d_lsr" % i, 0, U32),
        dlsr=ctx.int("r%d_dlsr" % i, 0, U32),
    )


def _mk_rtcp(ctx, kind, n, tagp=""):
    if kind == "rr":
        return RtcpRrPacket(ssrc=ctx.int(tagp + "ssrc", 0, U32), reports=[_receiver_info(ctx, i) for i in range(n)])
    if kind == "sr":
        return RtcpSrPacket(
            ssrc=ctx.int(tagp + "ssrc", 0, U32),
            sender_info=RtcpSenderInfo(
                ntp_timestamp=ctx.int("ntp", 0, U64),
                rtp_timestamp=ctx.int("rtpts", 0, U32),
                packet_count=ctx.int("pcount", 0, U32),
                octet_count=ctx.int("ocount", 0, U32),
            ),
            reports=[_receiver_info(ctx, i) for i in range(n)],
        )
    if kind == "bye":
        return RtcpByePacket(sources=[ctx.int(tagp + "src%d" % i, 0, U32) for i in range(n)])
    if kind == "sdes":
        chunks = []
        for i in range(n):
            items = []
            for j in range(2 if i == 0 else 1):
                vlen = (i + j) % 3
                items.append((ctx.int(tagp + "d%d_%d_type" % (i, j), 1, 255), ctx.bytes(tagp + "d%d_%d_val" % (i, j), vlen)))
            chunks.append(RtcpSourceInfo(ssrc=ctx.int(tagp + "sd%d_ssrc" % i, 0, U32), items=items))
        return RtcpSdesPacket(chunks=chunks)
    if kind == "psfb":
        return RtcpPsfbPacket(
            fmt=ctx.int(tagp + "fmt", 0, 31),
            ssrc=ctx.int(tagp + "ssrc", 0, U32),
            media_ssrc=ctx.int(tagp + "mssrc", 0, U32),
            fci=ctx.bytes(tagp + "fci", 4 * n),
        )
    raise ValueError(kind)


def h_rtcp(ctx, kind, n):
    p = _mk_rtcp(ctx, kind, n)
    data = sx.to_bytes(p)
    ctx.check(len(data) % 4 == 0, "rtcp-length-multiple-of-4")
    out = RtcpPacket.parse(data)
    ctx.check(len(out) == 1, "rtcp-one-packet")
    q = out[0]
    ctx.check(sx.deep_eq(p, q), "rtcp-roundtrip-" + kind)
    ctx.check(sx.eq(sx.to_bytes(q), data), "rtcp-reserialize-" + kind)
    ctx.observe("data", data)


def h_compound(ctx, k1, k2):
    p1 = _mk_rtcp(ctx, k1, 1, "a_")
    p2 = _mk_rtcp(ctx, k2, 1 if k2 != "sr" else 0, "b_") if k2 != k1 else _mk_rtcp(ctx, k2, 1, "b_")
    data = sx.to_bytes(p1) + sx.to_bytes(p2)
    out = RtcpPacket.parse(data)
    ctx.check(len(out) == 2, "compound-two-packets")
    ctx.check(sx.deep_eq(out[0], p1), "compound-first")
    ctx.check(sx.deep_eq(out[1], p2), "compound-second")


def h_clamp(ctx):
    x = ctx.int("x", -(1 << 63), (1 << 63) - 1)
    y = rtp.clamp_packets_lost(x)
    lo, hi = -(1 << 23), (1 << 23) - 1
    ctx.check(sx.And(y >= lo, y <= hi), "clamp-range")
    ctx.check(sx.Implies(sx.And(x >= lo, x <= hi), y == x), "clamp-identity-in-range")
    ctx.check(sx.Implies(x > hi, y == hi), "clamp-saturates-high")
    ctx.check(sx.Implies(x < lo, y == lo), "clamp-saturates-low")
    d = rtp.pack_packets_lost(y)
    ctx.check(sx.eq(rtp.unpack_packets_lost(d), y), "packets-lost-roundtrip")
    ctx.observe("y", y)


def h_nack(ctx, n, wrapnear, far=False):
    """NACK: the same set of 16-bit sequence numbers on both sides, also across wraparound."""
    origin = ctx.int("origin", 0, U16)
    if wrapnear:
        ctx.assume(origin >= 0xFF00, "origin within 256 of the wrap point (denser forks near the boundary)")
    lost = [origin]
    for i in range(1, n):
        g = ctx.int("gap%d" % i, 1, U16 if far else 40)  # far: anywhere else in the 16-bit space
        lost.append((lost[-1] + g) & U16)
    p = RtcpRtpfbPacket(fmt=1, ssrc=ctx.int("ssrc", 0, U32), media_ssrc=ctx.int("mssrc", 0, U32), lost=lost)
    data = sx.to_bytes(p)  # must not raise for any serially increasing list
    ctx.reach("nack-serialized")
    out = RtcpPacket.parse(data)
    ctx.check(len(out) == 1, "nack-one-packet")
    q = out[0]
    ctx.check(sx.And(sx.eq(q.fmt, 1), sx.eq(q.ssrc, p.ssrc), sx.eq(q.media_ssrc, p.media_ssrc)), "nack-header")
    for x in q.lost:
        ctx.check(sx.And(x >= 0, x <= U16), "nack-parsed-numbers-are-16-bit")
        ctx.check(sx.Or(*[sx.eq(x, y) for y in lost]), "nack-no-extra-number")
    for y in lost:
        ctx.check(sx.Or(*[sx.eq(x, y) for x in q.lost]), "nack-no-missing-number")
    ctx.observe("parsed", list(q.lost))


def h_remb(ctx, nssrc):
    bitrate = ctx.int("bitrate", 0, U64)
    ssrcs = [ctx.int("ssrc%d" % i, 0, U32) for i in range(nssrc)]
    fci = rtp.pack_remb_fci(bitrate, ssrcs)
    p = RtcpPsfbPacket(fmt=15, ssrc=ctx.int("s", 0, U32), media_ssrc=0, fci=fci)
    out = RtcpPacket.parse(sx.to_bytes(p))
    ctx.check(len(out) == 1, "remb-one-packet")
    dec, dss = rtp.unpack_remb_fci(out[0].fci)
    ctx.check(dec <= bitrate, "remb-never-rounds-up")
    ctx.check((bitrate - dec) << 17 < sx.ite(bitrate == 0, 1, bitrate), "remb-relative-error-below-2^-17")
    ctx.check(sx.deep_eq(dss, ssrcs), "remb-ssrcs")
    ctx.observe("dec", dec)


def h_rtx(ctx, plen, ncsrc):
    p = RtpPacket(
        payload_type=ctx.int("pt", 0, 127),
        marker=ctx.int("marker", 0, 1),
        sequence_number=ctx.int("seq", 0, U16),
        timestamp=ctx.int("ts", 0, U32),
        ssrc=ctx.int("ssrc", 0, U32),
        payload=ctx.bytes("payload", plen),
    )
    p.csrc = [ctx.int("csrc%d" % i, 0, U32) for i in range(ncsrc)]
    p.extensions = HeaderExtensions(abs_send_time=ctx.int("ast", 0, U24))
    p.padding_size = ctx.int("padding_size", 0, 255)
    rpt, rseq, rssrc = ctx.int("rtx_pt", 0, 127), ctx.int("rtx_seq", 0, U16), ctx.int("rtx_ssrc", 0, U32)
    r = rtp.wrap_rtx(p, payload_type=rpt, sequence_number=rseq, ssrc=rssrc)
    ctx.check(sx.And(sx.eq(r.payload_type, rpt), sx.eq(r.sequence_number, rseq), sx.eq(r.ssrc, rssrc)), "rtx-header")
    # through the wire as well
    m = _ext_map(ctx, 8, 0)  # abs-send-time, one-byte form
    r2 = RtpPacket.parse(r.serialize(m), m)
    q = rtp.unwrap_rtx(r2, payload_type=p.payload_type, ssrc=p.ssrc)
    for f in ("marker", "payload_type", "sequence_number", "timestamp", "ssrc", "padding_size"):
        ctx.check(sx.eq(getattr(q, f), getattr(p, f)), "rtx-field-" + f)
    ctx.check(sx.eq(q.extensions.abs_send_time, p.extensions.abs_send_time), "rtx-extensions")
    ctx.check(sx.eq(q.payload, p.payload), "rtx-payload")
    ctx.check(sx.deep_eq(q.csrc, p.csrc), "rtx-csrc")
    ctx.observe("payload", q.payload)


# --------------------------------------------------------------------------------- jobs
def _rtp_jobs(tier):
    jobs = []
    base = {"ncsrc": 0, "plen": 2, "pad": 0, "midlen": 1, "ridlen": 1, "himask": 0}
    masks = [0] + [1 << i for i in range(7)] + [0x7F, 0x09, 0x18, 0x60, 0x07]
    if tier == "thorough":
        masks = list(range(128))
    for mask in masks:
        jobs.append(dict(base, mask=mask))  # all ids 1..14 (one-byte form unless a length forces two-byte)
        if mask:
            jobs.append(dict(base, mask=mask, himask=mask))  # all ids 15..255
    for i in range(7):  # exactly one id >= 15 among all seven
        jobs.append(dict(base, mask=0x7F, himask=1 << i))
    for ncsrc, plen, pad in [(1, 0, 1), (3, 4, 2), (2, 1, 255), (0, 0, 0), (15, 1, 0)]:
        jobs.append(dict(base, ncsrc=ncsrc, plen=plen, pad=pad, mask=0x08))
    # lengths that flip between one- and two-byte form
    for midlen, ridlen in [(0, 1), (2, 0), (17, 1), (16, 2)]:
        jobs.append(dict(base, mask=0x07, midlen=midlen, ridlen=ridlen))
    if tier == "thorough":
        for midlen in (0, 1, 2, 16, 17):
            jobs.append(dict(base, mask=0x01, midlen=midlen))
            jobs.append(dict(base, mask=0x41, midlen=midlen, himask=0x40))
    return jobs


def _rtcp_jobs(tier):
    jobs = []
    for kind, ns in (("rr", [0, 1, 2]), ("sr", [0, 1, 2]), ("bye", [0, 1, 3]), ("sdes", [0, 1, 2]), ("psfb", [0, 1, 2])):
        for n in ns:
            jobs.append({"kind": kind, "n": n})
    if tier == "thorough":
        jobs += [{"kind": "bye", "n": 31}, {"kind": "rr", "n": 3}, {"kind": "sdes", "n": 3}]
    return jobs


ENC = [
    "aiortc.rtp:RtpPacket.parse",
    "aiortc.rtp:RtpPacket.serialize",
    "aiortc.rtp:HeaderExtensionsMap.configure",
    "aiortc.rtp:HeaderExtensionsMap.get",
    "aiortc.rtp:HeaderExtensionsMap.set",
    "aiortc.rtp:pack_header_extensions",
    "aiortc.rtp:unpack_header_extensions",
    "aiortc.rtp:RtcpPacket.parse",
    "aiortc.rtp:RtcpRrPacket.parse",
    "aiortc.rtp:RtcpSrPacket.parse",
    "aiortc.rtp:RtcpSdesPacket.parse",
    "aiortc.rtp:RtcpByePacket.parse",
    "aiortc.rtp:RtcpPsfbPacket.parse",
    "aiortc.rtp:RtcpRtpfbPacket.parse",
    "aiortc.rtp:RtcpRtpfbPacket.__bytes__",
    "aiortc.rtp:RtcpReceiverInfo.parse",
    "aiortc.rtp:RtcpReceiverInfo.__bytes__",
    "aiortc.rtp:pack_rtcp_packet",
    "aiortc.rtp:pack_remb_fci",
    "aiortc.rtp:unpack_remb_fci",
    "aiortc.rtp:clamp_packets_lost",
    "aiortc.rtp:pack_packets_lost",
    "aiortc.rtp:unpack_packets_lost",
    "aiortc.rtp:wrap_rtx",
    "aiortc.rtp:unwrap_rtx",
]

HARNESSES = {
    "rtp": Harness(
        "rtp",
        h_rtp,
        _rtp_jobs,
        style="RT",
        bounds="all header fields over wire range; <=3 (one job 15) CSRC; payload <=4 B; padding in {0,1,2,255}; extension subsets (quick: 13 masks, thorough: all 128) with solver-chosen distinct ids, all in 1..14, all in 15..255, or exactly one in 15..255; mid 0..2 and 16/17 code points (full Unicode), rid 0..2 ASCII",
        encoded=ENC,
        stubs=["os.urandom -> symbolic bytes"],
        twin="parsed",
    ),
    "rtcp": Harness(
        "rtcp", h_rtcp, _rtcp_jobs, style="RT", bounds="SR/RR <=2 (3) reports, SDES <=2 (3) chunks x <=2 items (value <=2 B), BYE <=3 (31) sources, PSFB FCI <=8 B; all fields over wire range", encoded=ENC, twin="rtcp-roundtrip-rr"
    ),
    "compound": Harness(
        "compound",
        h_compound,
        lambda tier: [{"k1": a, "k2": b} for a, b in [("rr", "sdes"), ("sr", "bye"), ("rr", "psfb"), ("sdes", "rr")]],
        style="RT",
        bounds="compounds of 2 packets",
        encoded=ENC,
        twin="compound-second",
    ),
    "clamp": Harness("clamp", h_clamp, lambda tier: [{}], style="LEMMA", bounds="all 64-bit signed inputs", encoded=ENC, twin="clamp-range"),
    "nack": Harness(
        "nack",
        h_nack,
        lambda tier: [{"n": n, "wrapnear": w} for n in ([1, 2, 3] if tier == "quick" else [1, 2, 3, 4]) for w in (False, True)] + [{"n": 2, "wrapnear": False, "far": True}],
        style="RT",
        bounds="lost = <=3 (quick) / <=4 strictly serially increasing 16-bit numbers, gaps 1..40, origin symbolic (and a second run with origin >= 0xFF00); plus two numbers any distance 1..65535 apart",
        encoded=ENC,
        twin="nack-no-missing-number",
    ),
    "remb": Harness(
        "remb", h_remb, lambda tier: [{"nssrc": n} for n in (0, 1, 3)], style="LEMMA+RT", bounds="bitrate over 0..2^64-1, <=3 SSRCs", encoded=ENC, twin="remb-ssrcs"
    ),
    "rtx": Harness(
        "rtx", h_rtx, lambda tier: [{"plen": p, "ncsrc": c} for p, c in [(0, 0), (1, 1), (4, 2)]], style="RT", bounds="payload <=4 B, <=2 CSRC", encoded=ENC, twin="rtx-payload"
    ),
}
