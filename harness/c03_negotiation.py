"""C03 (partial) - offer/answer negotiation kernels: directions, codec and header-extension
intersection.  Connectivity over ICE / DTLS / SCTP is outside (C libraries, sockets)."""
from __future__ import annotations

import aiortc.rtcpeerconnection as pc
import aiortc.rtp as rtp
from aiortc.codecs import CODECS, HEADER_EXTENSIONS
from aiortc.rtcrtpparameters import RTCRtcpFeedback, RTCRtpCodecCapability, RTCRtpCodecParameters, RTCRtpHeaderExtensionParameters
from aiortc.sdp import DIRECTIONS

from sx import api as sx
from sx.runner import Harness

from .util import Patch

PROPERTY = "C03"
MODULES = ["aiortc.rtcpeerconnection", "aiortc.codecs", "aiortc.sdp"]
DEADLINE = {"quick": 300, "thorough": 1500}


class _Range:
    """range(lo, hi) whose membership test is one comparison pair instead of hi-lo equality forks."""

    def __init__(self, lo, hi):
        self.lo, self.hi = lo, hi

    def __contains__(self, x):
        return bool(sx.And(x >= self.lo, x < self.hi))

    def __iter__(self):
        return iter(range(self.lo, self.hi))


FEEDBACK = [RTCRtcpFeedback(type="nack"), RTCRtcpFeedback(type="nack", parameter="pli"), RTCRtcpFeedback(type="goog-remb"), RTCRtcpFeedback(type="ccm", parameter="fir")]
MIMES = ["video/VP8", "video/H264", "video/rtx", "video/AV1X", "VIDEO/vp8", "video/RTX"]


def _is_rtx(c):
    """Encoding names are case-insensitive (RFC 4566); the oracle does not rely on the code's own is_rtx."""
    return c.mimeType.lower().endswith("/rtx")
H264_FMTP = [
    {},
    {"profile-level-id": "42001f", "packetization-mode": "1", "level-asymmetry-allowed": "1"},
    {"profile-level-id": "42e01f", "packetization-mode": "1"},
    {"profile-level-id": "42e01f", "packetization-mode": "0"},
    {"profile-level-id": "640c1f", "packetization-mode": "1"},
    {"profile-level-id": "zz", "packetization-mode": "1"},
    {"profile-level-id": "42e01f"},
]


def h_directions(ctx):
    o = ctx.choice("offer_direction", DIRECTIONS)
    p = ctx.choice("answerer_preference", DIRECTIONS)
    ans = pc.and_direction(p, pc.reverse_direction(o))
    ctx.reach("directions")
    sends = lambda d: d in ("sendonly", "sendrecv")  # noqa: E731
    recvs = lambda d: d in ("recvonly", "sendrecv")  # noqa: E731
    # the answerer sends only if it wants to and the offerer receives; same for receiving
    ctx.check(sends(ans) == (sends(p) and recvs(o)), "answer-sends-iff-wanted-and-offer-receives")
    ctx.check(recvs(ans) == (recvs(p) and sends(o)), "answer-receives-iff-wanted-and-offer-sends")
    # current directions of the two sides are complementary
    offerer_current = pc.reverse_direction(ans)
    ctx.check(sends(offerer_current) == recvs(ans) and recvs(offerer_current) == sends(ans), "current-directions-complementary")
    ctx.check(pc.reverse_direction(pc.reverse_direction(o)) == o, "reverse-is-an-involution")
    ctx.check(pc.or_direction(o, p) in DIRECTIONS and pc.and_direction(o, p) in DIRECTIONS, "direction-algebra-closed")
    ctx.observe("ans", ans)


def _remote_codec(ctx, i):
    mime = ctx.choice("c%d_mime" % i, MIMES)
    clock = ctx.choice("c%d_clock" % i, [90000, 8000])
    pt = ctx.int("c%d_pt" % i, 0, 127)
    params = {}
    if mime.lower() == "video/rtx":
        params = {"apt": ctx.int("c%d_apt" % i, 0, 127)}
    elif mime.lower() == "video/h264":
        params = dict(ctx.choice("c%d_fmtp" % i, H264_FMTP))
    fb = [f for j, f in enumerate(FEEDBACK) if ctx.choice("c%d_fb%d" % (i, j), [False, True])] if mime.lower() != "video/rtx" else []
    return RTCRtpCodecParameters(mimeType=mime, clockRate=clock, payloadType=pt, rtcpFeedback=fb, parameters=params)


def _same_codec_family(local, remote):
    return pc.is_codec_compatible(local, remote)


def h_codecs(ctx, n):
    local = CODECS["video"]
    remote = [_remote_codec(ctx, i) for i in range(n)]
    for i in range(n):
        for j in range(i):
            ctx.assume(remote[i].payloadType != remote[j].payloadType, "offered payload types are distinct")
    real = rtp.DYNAMIC_PAYLOAD_TYPES  # the code's own constant, only its membership test is replaced
    with Patch(rtp, DYNAMIC_PAYLOAD_TYPES=_Range(real.start, real.stop)):
        common = pc.find_common_codecs(local, remote)
    ctx.reach("codecs-intersected")
    # every selected codec was offered; order follows the offer
    last = -1
    selected_pts = []
    for c in common:
        idx = None
        for i, r in enumerate(remote):
            if i <= last:
                continue
            if r.mimeType.lower() != c.mimeType.lower() or r.clockRate != c.clockRate:
                continue
            dyn = bool(sx.And(r.payloadType >= 96, r.payloadType <= 127))
            if _is_rtx(c):
                if bool(sx.eq(c.payloadType, r.payloadType)) and bool(sx.eq(c.parameters.get("apt"), r.parameters.get("apt"))):
                    idx = i
                    break
            elif (not dyn or bool(sx.eq(c.payloadType, r.payloadType))) and pc.is_codec_compatible(c, r):
                idx = i
                break
        ctx.check(idx is not None, "selected-codec-was-offered-in-offer-order")
        if idx is None:
            continue
        last = idx
        r = remote[idx]
        if _is_rtx(c):
            ctx.check(any(bool(sx.eq(c.parameters["apt"], p)) for p in selected_pts), "rtx-only-next-to-its-selected-base-codec")
        else:
            for f in c.rtcpFeedback:
                ctx.check(f in r.rtcpFeedback, "feedback-was-offered")
                ctx.check(any(f in l.rtcpFeedback for l in local if l.mimeType.lower() == c.mimeType.lower()), "feedback-is-supported-locally")
            ctx.check(any(pc.is_codec_compatible(l, r) for l in local), "selected-codec-is-supported-locally")
        selected_pts.append(c.payloadType)
    # completeness: an offered codec that a local codec is compatible with is selected
    for i, r in enumerate(remote):
        if not _is_rtx(r) and any(pc.is_codec_compatible(l, r) for l in local):
            ctx.check(any(c.mimeType.lower() == r.mimeType.lower() and not _is_rtx(c) for c in common), "compatible-offered-codec-is-selected")
    ctx.observe("n", len(common))


def h_preferences(ctx, which):
    """filter_preferred_codecs: the result is within the preferred codecs and their RTX."""
    codecs = CODECS["video"]
    caps = [RTCRtpCodecCapability(mimeType=c.mimeType, clockRate=c.clockRate, parameters=c.parameters) for c in codecs]
    pref = [cap for j, cap in enumerate(caps) if (which >> j) & 1]
    out = pc.filter_preferred_codecs(list(codecs), pref)
    ctx.reach("preferences-filtered")
    if not pref:
        ctx.check(out == list(codecs), "no-preference-keeps-everything")
        return
    rtx_enabled = any(_is_rtx(p) for p in pref)
    base_pts = []
    for c in out:
        if _is_rtx(c):
            ctx.check(rtx_enabled and c.parameters["apt"] in base_pts, "rtx-only-for-a-preferred-base-and-when-enabled")
        else:
            ctx.check(any(p.mimeType.lower() == c.mimeType.lower() and p.parameters == c.parameters for p in pref if not _is_rtx(p)), "result-within-preferences")
            base_pts.append(c.payloadType)
    ctx.observe("n", len(out))


def h_extensions(ctx, kind, n):
    local = HEADER_EXTENSIONS[kind]
    uris = [x.uri for x in HEADER_EXTENSIONS["audio"]] + [x.uri for x in HEADER_EXTENSIONS["video"]] + ["urn:example:unknown"]
    remote = []
    for i in range(n):
        remote.append(RTCRtpHeaderExtensionParameters(id=ctx.int("x%d_id" % i, 1, 255), uri=ctx.choice("x%d_uri" % i, sorted(set(uris)))))
    common = pc.find_common_header_extensions(local, remote)
    ctx.reach("extensions-intersected")
    for c in common:
        ctx.check(any(c is r for r in remote), "selected-extension-was-offered-with-the-offerers-id")
        ctx.check(any(l.uri == c.uri for l in local), "selected-extension-is-supported-locally")
    for r in remote:
        if any(l.uri == r.uri for l in local):
            ctx.check(any(c is r for c in common), "supported-offered-extension-is-selected")
    ctx.observe("n", len(common))


def h_offer_answer(ctx, noffer, nanswer, data, policies=(0, 0), followup=None):
    """Real RTCPeerConnection pair (private event loop, no connectivity awaited): the solver chooses
    kinds / directions of the offerer's transceivers, what the answerer created beforehand, the
    bundle policies and a codec preference; the exchange must succeed and mirror the offer."""
    import asyncio

    from aiortc import RTCConfiguration, RTCPeerConnection
    from aiortc.rtcconfiguration import RTCBundlePolicy
    from aiortc.sdp import SessionDescription

    loop = asyncio.new_event_loop()
    loop.set_exception_handler(lambda *_: None)
    asyncio.set_event_loop(loop)
    run = loop.run_until_complete
    pol = [RTCBundlePolicy.BALANCED, RTCBundlePolicy.MAX_COMPAT, RTCBundlePolicy.MAX_BUNDLE]
    a = RTCPeerConnection(RTCConfiguration(bundlePolicy=pol[policies[0]]))
    b = RTCPeerConnection(RTCConfiguration(bundlePolicy=pol[policies[1]]))
    try:
        ta = []
        data_first = bool(data and noffer and ctx.choice("data_first", [False, True]))
        if data_first:
            a.createDataChannel("chat")
        for i in range(noffer):
            kind = ctx.choice("a%d_kind" % i, ["audio", "video"])
            d = ctx.choice("a%d_dir" % i, DIRECTIONS)
            t = a.addTransceiver(kind, direction=d)
            if kind == "video" and ctx.choice("a%d_pref" % i, [False, True]):
                caps = [c for c in pc.RTCRtpSender.getCapabilities("video").codecs if c.mimeType in ("video/H264", "video/rtx")]
                t.setCodecPreferences(caps)
            ta.append(t)
        if data and not data_first:
            a.createDataChannel("chat")
        tb = []
        for i in range(nanswer):
            kind = ctx.choice("b%d_kind" % i, ["audio", "video"])
            d = ctx.choice("b%d_dir" % i, DIRECTIONS)
            tb.append(b.addTransceiver(kind, direction=d))
        if noffer == 0 and not data:
            return
        if nanswer and ctx.choice("b_probes_an_offer", [False, True]):
            run(b.createOffer())  # created (numbering its sections provisionally) but never applied
        offer = run(a.createOffer())
        run(a.setLocalDescription(offer))
        run(b.setRemoteDescription(a.localDescription))
        answer = run(b.createAnswer())
        run(b.setLocalDescription(answer))
        run(a.setRemoteDescription(b.localDescription))
        ctx.reach("negotiated")
        ctx.check(a.signalingState == "stable" and b.signalingState == "stable", "both-sides-stable")
        od = SessionDescription.parse(a.localDescription.sdp)
        ad = SessionDescription.parse(b.localDescription.sdp)
        ctx.check([(m.kind, m.rtp.muxId) for m in ad.media] == [(m.kind, m.rtp.muxId) for m in od.media], "answer-mirrors-media-sections")
        ctx.check(len(ad.group) == 1 and ad.group[0].semantic == "BUNDLE" and list(ad.group[0].items) == [m.rtp.muxId for m in ad.media], "answer-bundle-group-lists-its-mids")
        for om, am in zip(od.media, ad.media):
            ctx.check(am.dtls is not None and am.dtls.role in ("client", "server"), "answer-has-a-definite-dtls-role")
            if om.kind == "application":
                continue
            # directions
            sends = lambda d: d in ("sendonly", "sendrecv")  # noqa: E731
            recvs = lambda d: d in ("recvonly", "sendrecv")  # noqa: E731
            ctx.check((not sends(am.direction) or recvs(om.direction)) and (not recvs(am.direction) or sends(om.direction)), "answer-direction-compatible-with-offer")
            # codecs: offered, with the offerer's payload types, RTX only next to its base
            offered = {c.payloadType: c for c in om.rtp.codecs}
            sel_pts = []
            for c in am.rtp.codecs:
                o = offered.get(c.payloadType)
                ctx.check(o is not None and o.mimeType.lower() == c.mimeType.lower() and o.clockRate == c.clockRate, "answer-codec-was-offered-with-that-payload-type")
                if _is_rtx(c):
                    ctx.check(c.parameters.get("apt") in sel_pts, "answer-rtx-only-next-to-its-base")
                elif o is not None:
                    for f in c.rtcpFeedback:
                        ctx.check(f in o.rtcpFeedback, "answer-feedback-was-offered")
                sel_pts.append(c.payloadType)
            if om.direction != "inactive" and om.rtp.codecs:
                ctx.check(len(am.rtp.codecs) >= 1, "answer-selects-at-least-one-codec")
            oext = {(x.uri, x.id) for x in om.rtp.headerExtensions}
            for x in am.rtp.headerExtensions:
                ctx.check((x.uri, x.id) in oext, "answer-header-extension-offered-with-that-id")
        # current directions complementary
        for t in a.getTransceivers():
            peer = [u for u in b.getTransceivers() if u.mid == t.mid]
            ctx.check(len(peer) == 1, "every-offered-transceiver-has-a-peer")
            if peer:
                ctx.check(peer[0].currentDirection == pc.reverse_direction(t.currentDirection), "current-directions-complementary")
        # nothing that was negotiated has lost its transport
        for p_ in (a, b):
            ts = [(t.mid, t.sender.transport) for t in p_.getTransceivers() if t.mid is not None and not t.stopped]
            if p_.sctp is not None:
                ts.append(("sctp", p_.sctp.transport))
            for mid, dtls in ts:
                ctx.check(dtls.state != "closed" and dtls.transport.state != "closed", "negotiated-section-keeps-its-transport", "mid %s dtls=%s ice=%s" % (mid, dtls.state, dtls.transport.state))
        ctx.observe("mlines", len(ad.media))
        if followup:
            # follow-up negotiation: one side adds a transceiver and offers again ("same": the first
            # offerer, "swap": the first answerer).  Everything negotiated before must survive it.
            x, y = (a, b) if followup == "same" else (b, a)
            before = [(t.mid, t.sender.transport, t.sender.transport.transport) for t in a.getTransceivers() + b.getTransceivers()]
            first_mids = [m.rtp.muxId for m in ad.media]
            x.addTransceiver(ctx.choice("f_kind", ["audio", "video"]), direction=ctx.choice("f_dir", DIRECTIONS))
            run(x.setLocalDescription(run(x.createOffer())))
            run(y.setRemoteDescription(x.localDescription))
            run(y.setLocalDescription(run(y.createAnswer())))
            run(x.setRemoteDescription(y.localDescription))
            ctx.reach("renegotiated")
            ctx.check(x.signalingState == "stable" and y.signalingState == "stable", "followup-both-sides-stable")
            od2 = SessionDescription.parse(x.localDescription.sdp)
            ad2 = SessionDescription.parse(y.localDescription.sdp)
            mids2 = [m.rtp.muxId for m in od2.media]
            ctx.check(mids2[: len(first_mids)] == first_mids and len(mids2) == len(first_mids) + 1, "followup-keeps-media-sections-and-appends-one")
            ctx.check([(m.kind, m.rtp.muxId) for m in ad2.media] == [(m.kind, m.rtp.muxId) for m in od2.media], "followup-answer-mirrors-media-sections")
            for p_ in (a, b):
                ctx.check(p_.connectionState != "closed" and p_.iceConnectionState != "closed", "followup-does-not-close-the-connection", "%s/%s" % (p_.connectionState, p_.iceConnectionState))
            for mid, dtls, ice in before:
                ctx.check(dtls.state != "closed" and ice.state != "closed", "followup-keeps-established-transports", "mid %s dtls=%s ice=%s" % (mid, dtls.state, ice.state))
            for t in a.getTransceivers():
                peer = [u for u in b.getTransceivers() if u.mid == t.mid]
                ctx.check(len(peer) == 1 and peer[0].currentDirection == pc.reverse_direction(t.currentDirection), "followup-current-directions-complementary")

            def ice_roles(p_):
                ts = [t.sender.transport.transport for t in p_.getTransceivers()]
                if p_.sctp is not None:
                    ts.append(p_.sctp.transport.transport)
                return {t.role for t in ts}

            ra, rb = ice_roles(a), ice_roles(b)
            ctx.check(len(ra) == 1 and len(rb) == 1 and ra != rb, "followup-ice-roles-stay-complementary", "%s vs %s" % (sorted(ra), sorted(rb)))
    finally:
        try:
            for p in (a, b):
                loop.run_until_complete(p.close())
            pend = [t for t in asyncio.all_tasks(loop) if not t.done()]
            for t in pend:
                t.cancel()
            if pend:
                loop.run_until_complete(asyncio.gather(*pend, return_exceptions=True))
        except Exception:  # noqa: BLE001
            pass
        loop.close()
        asyncio.set_event_loop(None)


ENC = [
    "aiortc.rtcpeerconnection:RTCPeerConnection.createOffer",
    "aiortc.rtcpeerconnection:RTCPeerConnection.createAnswer",
    "aiortc.rtcpeerconnection:RTCPeerConnection.setLocalDescription",
    "aiortc.rtcpeerconnection:RTCPeerConnection.setRemoteDescription",
    "aiortc.rtcpeerconnection:and_direction",
    "aiortc.rtcpeerconnection:or_direction",
    "aiortc.rtcpeerconnection:reverse_direction",
    "aiortc.rtcpeerconnection:find_common_codecs",
    "aiortc.rtcpeerconnection:filter_preferred_codecs",
    "aiortc.rtcpeerconnection:find_common_header_extensions",
    "aiortc.rtcpeerconnection:is_codec_compatible",
    "aiortc.sdp:parse_h264_profile_level_id",
]
STUBS = ["rtp.DYNAMIC_PAYLOAD_TYPES -> range object with an arithmetic membership test (same set 96..127)"]
OUT = [
    "that ICE, DTLS and SCTP then actually connect and data channels open (aioice sockets, OpenSSL; not encodable)",
    "createOffer/createAnswer mirroring of media sections on real peer connections (covered at the state-machine level by C14)",
    "bundle-policy transport sharing, follow-up negotiations that add media",
]

HARNESSES = {
    "offer-answer": Harness(
        "offer-answer",
        h_offer_answer,
        lambda tier: [
            {"noffer": no, "nanswer": na, "data": d, "policies": list(p)}
            for no in ((0, 1, 2) if tier == "quick" else (0, 1, 2, 3))
            for na in ((0, 1) if tier == "quick" else (0, 1, 2))
            for d in (False, True)
            for p in (((0, 0), (2, 1)) if tier == "quick" else [(x, y) for x in range(3) for y in range(3)])
            if (no or d) and not (tier == "quick" and no == 2 and na == 1 and p != (0, 0))
        ]
        + [
            {"noffer": no, "nanswer": 0, "data": d, "policies": list(p), "followup": f}
            for f in ("same", "swap")
            for no, d in (((1, True), (2, False)) if tier == "quick" else ((1, False), (1, True), (2, False), (2, True)))
            for p in (((0, 0), (2, 1)) if tier == "quick" else ((0, 0), (2, 1), (1, 2), (2, 2)))
        ],
        style="BMC over configurations (real objects, real event loop)",
        bounds="offerer with 0..2 (3) transceivers (kind, direction, optional H.264-only preference solver-chosen) and optionally a data channel; answerer with 0..1 (2) transceivers created beforehand; all 3x3 bundle policies; one offer/answer round, no connectivity awaited; in a second job set a follow-up negotiation (same or swapped offerer adds one transceiver) must keep mids, transports and both connections alive",
        encoded=ENC,
        stubs=["none: real RTCPeerConnection objects; ICE gathers on local interfaces; background connection tasks are cancelled at the end of every path"],
        outside=OUT,
        twin="negotiated",
        opts={"samples": 1, "path_timeout_s": 120, "gc_guard": True},
    ),
    "directions": Harness("directions", h_directions, lambda tier: [{}], style="RT/DIFF", bounds="all 16 (offer direction, answerer preference) pairs", encoded=ENC, outside=OUT, twin="directions"),
    "codecs": Harness("codecs", h_codecs, lambda tier: [{"n": n} for n in ((1, 2) if tier == "quick" else (1, 2, 3))], style="DIFF", bounds="remote offer of <=2 (quick) / <=3 codecs: mime from {VP8, H264, rtx, unknown, case variant}, clock 90000/8000, payload type and apt symbolic 0..127 (distinct), 7 H.264 fmtp variants incl. invalid and absent profile, every feedback subset of 4; local codecs = the library's video capabilities", encoded=ENC, stubs=STUBS, outside=OUT, twin="codecs-intersected", opts={"samples": 1}),
    "preferences": Harness("preferences", h_preferences, lambda tier: [{"which": w} for w in range(1 << len(CODECS["video"]))], style="DIFF", bounds="every subset of the library's video codec list as preference", encoded=ENC, outside=OUT, twin="preferences-filtered"),
    "extensions": Harness("extensions", h_extensions, lambda tier: [{"kind": k, "n": n} for k in ("audio", "video") for n in (0, 1, 2, 3)], style="DIFF", bounds="<=3 offered extensions, uri from the known set plus one unknown, ids symbolic 1..255", encoded=ENC, outside=OUT, twin="extensions-intersected"),
}
