"""C03 (partial) - offer/answer negotiation kernels: directions, codec and header-extension
intersection.  Connectivity over ICE / DTLS / SCTP is outside (C libraries, sockets)."""
from __future__ import annotations

import aiortc.rtcpeerconnection as pc
import aiortc.rtp as rtp
from aiortc.codecs import CODECS, HEADER_EXTENSIONS
from aiortc.rtcrtpparameters import RTCRtcpFeedback, RTCRtpCodecCapability, RTCRtpCodecParameters, RTCRtpHeaderExtensionParameters
from aiortc.sdp import DIRECTIONS

from sx import api as sx
from sx.runner import Harness

from .util import Patch

PROPERTY = "C03"
MODULES = ["aiortc.rtcpeerconnection", "aiortc.codecs", "aiortc.sdp"]
DEADLINE = {"quick": 300, "thorough": 1500}


class _Range:
    """range(lo, hi) whose membership test is one comparison pair instead of hi-lo equality forks."""

    def __init__(self, lo, hi):
        self.lo, self.hi = lo, hi

    def __contains__(self, x):
        return bool(sx.And(x >= self.lo, x < self.hi))

    def __iter__(self):
        return iter(range(self.lo, self.hi))


FEEDBACK = [RTCRtcpFeedback(type="nack"), RTCRtcpFeedback(type="nack", parameter="pli"), RTCRtcpFeedback(type="goog-remb"), RTCRtcpFeedback(type="ccm", parameter="fir")]
MIMES = ["video/VP8", "video/H264", "video/rtx", "video/AV1X", "VIDEO/vp8"]
H264_FMTP = [
    {},
    {"profile-level-id": "42001f", "packetization-mode": "1", "level-asymmetry-allowed": "1"},
    {"profile-level-id": "42e01f", "packetization-mode": "1"},
    {"profile-level-id": "42e01f", "packetization-mode": "0"},
    {"profile-level-id": "640c1f", "packetization-mode": "1"},
    {"profile-level-id": "zz", "packetization-mode": "1"},
    {"profile-level-id": "42e01f"},
]


def h_directions(ctx):
    o = ctx.choice("offer_direction", DIRECTIONS)
    p = ctx.choice("answerer_preference", DIRECTIONS)
    ans = pc.and_direction(p, pc.reverse_direction(o))
    ctx.reach("directions")
    sends = lambda d: d in ("sendonly", "sendrecv")  # noqa: E731
    recvs = lambda d: d in ("recvonly", "sendrecv")  # noqa: E731
    # the answerer sends only if it wants to and the offerer receives; same for receiving
    ctx.check(sends(ans) == (sends(p) and recvs(o)), "answer-sends-iff-wanted-and-offer-receives")
    ctx.check(recvs(ans) == (recvs(p) and sends(o)), "answer-receives-iff-wanted-and-offer-sends")
    # current directions of the two sides are complementary
    offerer_current = pc.reverse_direction(ans)
    ctx.check(sends(offerer_current) == recvs(ans) and recvs(offerer_current) == sends(ans), "current-directions-complementary")
    ctx.check(pc.reverse_direction(pc.reverse_direction(o)) == o, "reverse-is-an-involution")
    ctx.check(pc.or_direction(o, p) in DIRECTIONS and pc.and_direction(o, p) in DIRECTIONS, "direction-algebra-closed")
    ctx.observe("ans", ans)


def _remote_codec(ctx, i):
    mime = ctx.choice("c%d_mime" % i, MIMES)
    clock = ctx.choice("c%d_clock" % i, [90000, 8000])
    pt = ctx.int("c%d_pt" % i, 0, 127)
    params = {}
    if mime == "video/rtx":
        params = {"apt": ctx.int("c%d_apt" % i, 0, 127)}
    elif mime.lower() == "video/h264":
        params = dict(ctx.choice("c%d_fmtp" % i, H264_FMTP))
    fb = [f for j, f in enumerate(FEEDBACK) if ctx.choice("c%d_fb%d" % (i, j), [False, True])] if mime != "video/rtx" else []
    return RTCRtpCodecParameters(mimeType=mime, clockRate=clock, payloadType=pt, rtcpFeedback=fb, parameters=params)


def _same_codec_family(local, remote):
    return pc.is_codec_compatible(local, remote)


def h_codecs(ctx, n):
    local = CODECS["video"]
    remote = [_remote_codec(ctx, i) for i in range(n)]
    for i in range(n):
        for j in range(i):
            ctx.assume(remote[i].payloadType != remote[j].payloadType, "offered payload types are distinct")
    with Patch(rtp, DYNAMIC_PAYLOAD_TYPES=_Range(96, 128)):
        common = pc.find_common_codecs(local, remote)
    ctx.reach("codecs-intersected")
    # every selected codec was offered; order follows the offer
    last = -1
    selected_pts = []
    for c in common:
        idx = None
        for i, r in enumerate(remote):
            if i <= last:
                continue
            if r.mimeType.lower() != c.mimeType.lower() or r.clockRate != c.clockRate:
                continue
            dyn = bool(sx.And(r.payloadType >= 96, r.payloadType <= 127))
            if pc.is_rtx(c):
                if bool(sx.eq(c.payloadType, r.payloadType)) and bool(sx.eq(c.parameters.get("apt"), r.parameters.get("apt"))):
                    idx = i
                    break
            elif (not dyn or bool(sx.eq(c.payloadType, r.payloadType))) and pc.is_codec_compatible(c, r):
                idx = i
                break
        ctx.check(idx is not None, "selected-codec-was-offered-in-offer-order")
        if idx is None:
            continue
        last = idx
        r = remote[idx]
        if pc.is_rtx(c):
            ctx.check(any(bool(sx.eq(c.parameters["apt"], p)) for p in selected_pts), "rtx-only-next-to-its-selected-base-codec")
        else:
            for f in c.rtcpFeedback:
                ctx.check(f in r.rtcpFeedback, "feedback-was-offered")
                ctx.check(any(f in l.rtcpFeedback for l in local if l.mimeType.lower() == c.mimeType.lower()), "feedback-is-supported-locally")
            ctx.check(any(pc.is_codec_compatible(l, r) for l in local), "selected-codec-is-supported-locally")
        selected_pts.append(c.payloadType)
    # completeness: an offered codec that a local codec is compatible with is selected
    for i, r in enumerate(remote):
        if not pc.is_rtx(r) and any(pc.is_codec_compatible(l, r) for l in local):
            ctx.check(any(c.mimeType.lower() == r.mimeType.lower() and not pc.is_rtx(c) for c in common), "compatible-offered-codec-is-selected")
    ctx.observe("n", len(common))


def h_preferences(ctx, which):
    """filter_preferred_codecs: the result is within the preferred codecs and their RTX."""
    codecs = CODECS["video"]
    caps = [RTCRtpCodecCapability(mimeType=c.mimeType, clockRate=c.clockRate, parameters=c.parameters) for c in codecs]
    pref = [cap for j, cap in enumerate(caps) if (which >> j) & 1]
    out = pc.filter_preferred_codecs(list(codecs), pref)
    ctx.reach("preferences-filtered")
    if not pref:
        ctx.check(out == list(codecs), "no-preference-keeps-everything")
        return
    rtx_enabled = any(pc.is_rtx(p) for p in pref)
    base_pts = []
    for c in out:
        if pc.is_rtx(c):
            ctx.check(rtx_enabled and c.parameters["apt"] in base_pts, "rtx-only-for-a-preferred-base-and-when-enabled")
        else:
            ctx.check(any(p.mimeType.lower() == c.mimeType.lower() and p.parameters == c.parameters for p in pref if not pc.is_rtx(p)), "result-within-preferences")
            base_pts.append(c.payloadType)
    ctx.observe("n", len(out))


def h_extensions(ctx, kind, n):
    local = HEADER_EXTENSIONS[kind]
    uris = [x.uri for x in HEADER_EXTENSIONS["audio"]] + [x.uri for x in HEADER_EXTENSIONS["video"]] + ["urn:example:unknown"]
    remote = []
    for i in range(n):
        remote.append(RTCRtpHeaderExtensionParameters(id=ctx.int("x%d_id" % i, 1, 255), uri=ctx.choice("x%d_uri" % i, sorted(set(uris)))))
    common = pc.find_common_header_extensions(local, remote)
    ctx.reach("extensions-intersected")
    for c in common:
        ctx.check(any(c is r for r in remote), "selected-extension-was-offered-with-the-offerers-id")
        ctx.check(any(l.uri == c.uri for l in local), "selected-extension-is-supported-locally")
    for r in remote:
        if any(l.uri == r.uri for l in local):
            ctx.check(any(c is r for c in common), "supported-offered-extension-is-selected")
    ctx.observe("n", len(common))


ENC = [
    "aiortc.rtcpeerconnection:and_direction",
    "aiortc.rtcpeerconnection:or_direction",
    "aiortc.rtcpeerconnection:reverse_direction",
    "aiortc.rtcpeerconnection:find_common_codecs",
    "aiortc.rtcpeerconnection:filter_preferred_codecs",
    "aiortc.rtcpeerconnection:find_common_header_extensions",
    "aiortc.rtcpeerconnection:is_codec_compatible",
    "aiortc.sdp:parse_h264_profile_level_id",
]
STUBS = ["rtp.DYNAMIC_PAYLOAD_TYPES -> range object with an arithmetic membership test (same set 96..127)"]
OUT = [
    "that ICE, DTLS and SCTP then actually connect and data channels open (aioice sockets, OpenSSL; not encodable)",
    "createOffer/createAnswer mirroring of media sections on real peer connections (covered at the state-machine level by C14)",
    "bundle-policy transport sharing, follow-up negotiations that add media",
]

HARNESSES = {
    "directions": Harness("directions", h_directions, lambda tier: [{}], style="RT/DIFF", bounds="all 16 (offer direction, answerer preference) pairs", encoded=ENC, outside=OUT, twin="directions"),
    "codecs": Harness("codecs", h_codecs, lambda tier: [{"n": n} for n in ((1, 2) if tier == "quick" else (1, 2, 3))], style="DIFF", bounds="remote offer of <=2 (quick) / <=3 codecs: mime from {VP8, H264, rtx, unknown, case variant}, clock 90000/8000, payload type and apt symbolic 0..127 (distinct), 7 H.264 fmtp variants incl. invalid and absent profile, every feedback subset of 4; local codecs = the library's video capabilities", encoded=ENC, stubs=STUBS, outside=OUT, twin="codecs-intersected", opts={"samples": 1}),
    "preferences": Harness("preferences", h_preferences, lambda tier: [{"which": w} for w in range(1 << len(CODECS["video"]))], style="DIFF", bounds="every subset of the library's video codec list as preference", encoded=ENC, outside=OUT, twin="preferences-filtered"),
    "extensions": Harness("extensions", h_extensions, lambda tier: [{"kind": k, "n": n} for k in ("audio", "video") for n in (0, 1, 2, 3)], style="DIFF", bounds="<=3 offered extensions, uri from the known set plus one unknown, ids symbolic 1..255", encoded=ENC, outside=OUT, twin="extensions-intersected"),
}
