"""C17 - second opinion on the serial-arithmetic lemmas by an independent engine (CrossHair).

The lemma file is generated on every run; it loads utils.py (and the two tsn_* functions of
rtcsctptransport.py, cut out of the source by name) from the tree under check, so CrossHair
executes the same source text as the sx engine, with its own symbolic ints and its own z3 use.
A lemma CrossHair refutes is a violation candidate; "not confirmed" (path timeout) is reported as
a note and does not fail the check - the sx lemma harnesses remain the deciding step.
"""
from __future__ import annotations

import ast
import os
import re
import shutil
import subprocess
import sys
import tempfile

from sx.loader import SRC

HERE = os.path.dirname(os.path.dirname(os.path.abspath(__file__)))

TEMPLATE = '''
import importlib.util
_spec = importlib.util.spec_from_file_location("aiortc_utils_under_test", {utils!r})
u = importlib.util.module_from_spec(_spec)
_spec.loader.exec_module(u)
{tsn_src}
M = 1 << {bits}
H = M >> 1
add, gt, gte = u.uint{bits}_add, u.uint{bits}_gt, u.uint{bits}_gte


def add_is_modular(a: int, k: int) -> int:
    """
    pre: 0 <= a < M and -M < k < M
    post: _ == (a + k) % M
    """
    return add(a, k)


def gt_is_forward_distance(a: int, b: int) -> bool:
    """
    pre: 0 <= a < M and 0 <= b < M
    post: _ == (((a - b) % M) != 0 and ((a - b) % M) < H)
    """
    return gt(a, b)


def antisymmetric(a: int, b: int) -> bool:
    """
    pre: 0 <= a < M and 0 <= b < M and a != b and (a - b) % M != H
    post: _
    """
    return gt(a, b) != gt(b, a)


def never_both(a: int, b: int) -> bool:
    """
    pre: 0 <= a < M and 0 <= b < M
    post: not _
    """
    return gt(a, b) and gt(b, a)


def gt_after_add(a: int, k: int) -> bool:
    """
    pre: 0 <= a < M and 1 <= k < H
    post: _
    """
    return gt(add(a, k), a) and not gt(a, add(a, k))


def shift_invariant(a: int, b: int, c: int) -> bool:
    """
    pre: 0 <= a < M and 0 <= b < M and 0 <= c < M
    post: _
    """
    return gt(a, b) == gt(add(a, c), add(b, c))


def gte_def(a: int, b: int) -> bool:
    """
    pre: 0 <= a < M and 0 <= b < M
    post: _
    """
    return gte(a, b) == (gt(a, b) or a == b)
'''

TSN_LEMMAS = '''

def tsn_inverse(a: int) -> bool:
    """
    pre: 0 <= a < 2**32
    post: _
    """
    p, m = tsn_plus_one(a), tsn_minus_one(a)
    return 0 <= p < 2**32 and 0 <= m < 2**32 and tsn_minus_one(p) == a and tsn_plus_one(m) == a and (p == 0) == (a == 2**32 - 1)


def tsn_order(a: int) -> bool:
    """
    pre: 0 <= a < 2**32
    post: _
    """
    return u.uint32_gt(tsn_plus_one(a), a) and u.uint32_gt(a, tsn_minus_one(a))
'''


def _cut_functions(path, names):
    src = open(path).read()
    tree = ast.parse(src)
    out = []
    for node in tree.body:
        if isinstance(node, ast.FunctionDef) and node.name in names:
            out.append(ast.get_source_segment(src, node))
        elif isinstance(node, ast.Assign) and len(node.targets) == 1 and isinstance(node.targets[0], ast.Name) and node.targets[0].id in names:
            out.append(ast.get_source_segment(src, node))
    if len(out) != len(names):
        raise RuntimeError("functions %r not found in %s" % (names, path))
    return "\n\n\n".join(out)


def h_crosshair(ctx, bits):
    utils = os.path.join(SRC, "aiortc", "utils.py")
    tsn_src = ""
    extra = ""
    if bits == 32:
        tsn_src = _cut_functions(os.path.join(SRC, "aiortc", "rtcsctptransport.py"), ["SCTP_TSN_MODULO", "tsn_minus_one", "tsn_plus_one"])
        extra = TSN_LEMMAS
    os.makedirs(os.path.join(HERE, ".scratch"), exist_ok=True)
    d = tempfile.mkdtemp(prefix="xh", dir=os.path.join(HERE, ".scratch"))
    try:
        f = os.path.join(d, "lemmas%d.py" % bits)
        with open(f, "w") as fh:
            fh.write(TEMPLATE.format(utils=utils, bits=bits, tsn_src=tsn_src) + extra)
        env = dict(os.environ)
        env["PYTHONPATH"] = os.path.join(HERE, ".deps")
        p = subprocess.run([sys.executable, "-m", "crosshair", "check", "--report_all", "--per_condition_timeout", "40", f], capture_output=True, text=True, env=env, timeout=900)
        out = p.stdout + p.stderr
        src_lines = open(f).read().splitlines()
    finally:
        shutil.rmtree(d, ignore_errors=True)
    ctx.reach("crosshair-ran")
    confirmed, refuted, other = [], [], []
    for line in out.splitlines():
        m = re.match(r".*lemmas\d+\.py:(\d+): (info|error): (.*)", line)
        if not m:
            continue
        ln, kind, msg = int(m.group(1)), m.group(2), m.group(3)
        name = "?"
        for j in range(ln - 1, -1, -1):
            mm = re.match(r"def (\w+)\(", src_lines[j]) if j < len(src_lines) else None
            if mm:
                name = mm.group(1)
                break
        if kind == "info" and msg.startswith("Confirmed over all paths"):
            confirmed.append(name)
        elif kind == "error":
            refuted.append("%s: %s" % (name, msg))
        else:
            other.append("%s: %s" % (name, msg))
    want = 7 + (2 if bits == 32 else 0)
    for r in refuted:
        ctx.fail("crosshair-refutes-lemma", r)
    if not refuted and len(confirmed) + len(other) != want:
        ctx.fail("crosshair-run-incomplete", out[-400:])
    ctx.note("CrossHair (%d bit): %d lemmas confirmed over all paths, %d not confirmed within the path budget%s" % (bits, len(confirmed), len(other), (": " + "; ".join(other)) if other else ""))
    ctx.observe("ran", True)
