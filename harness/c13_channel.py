"""C13 - data channel lifecycle: faithful open, forward-only states, exact bufferedAmount."""
from __future__ import annotations

import aiortc.rtcsctptransport as sctp
from aiortc.rtcdatachannel import RTCDataChannel, RTCDataChannelParameters
from aiortc.rtcsctptransport import DataChunk, StreamResetOutgoingParam, StreamResetResponseParam

from sx import api as sx
from sx.runner import Harness

from .sctp_env import Env, State

PROPERTY = "C13"
MODULES = ["aiortc.rtcsctptransport", "aiortc.rtcdatachannel"]
DEADLINE = {"quick": 400, "thorough": 2000}
U16, U32 = 0xFFFF, 0xFFFFFFFF
RANK = {"connecting": 0, "open": 1, "closing": 2, "closed": 3}


def _crc():
    return (lambda d: 0) if sx.active() else None


def _clone(c):
    d = DataChunk()
    d.flags, d.tsn, d.stream_id, d.stream_seq, d.protocol, d.user_data = c.flags, c.tsn, c.stream_id, c.stream_seq, c.protocol, c.user_data
    return d


def _pair(env):
    a = env.transport("controlling", established=True, local_tsn=100, remote_tsn=200, vtag=1, rtag=2)
    b = env.transport("controlled", established=True, local_tsn=200, remote_tsn=100, vtag=2, rtag=1)
    return a, b


def _pump(env, src, dst):
    """Hand every DATA chunk queued/sent by src to dst (in order), once."""
    n = 0
    for c in list(src._sent_queue) + list(src._outbound_queue):
        if getattr(c, "_pumped", False):
            continue
        c._pumped = True
        sx.run(dst._receive_data_chunk(_clone(c)))
        n += 1
    env.drain()
    return n


def h_open(ctx, llen, plen, rel, ordered, custom_id):
    """DCEP OPEN produced by one transport, consumed by the other: exactly one datachannel event
    with the same id, label, protocol, ordering and reliability settings."""
    with Env(crc=_crc()) as env:
        a, b = _pair(env)
        label = ctx.str("label", llen, 0, 0x10FFFF)
        protocol = ctx.str("protocol", plen, 0, 0x10FFFF)
        mr = mplt = None
        if rel == "rexmit":
            mr = ctx.int("maxRetransmits", 0, U16)
        elif rel == "timed":
            mplt = ctx.int("maxPacketLifeTime", 0, U16)
        cid = ctx.int("id", 0, 65534) if custom_id else None
        events = []
        b.on("datachannel", lambda ch: events.append(ch))
        cha = RTCDataChannel(a, RTCDataChannelParameters(label=label, protocol=protocol, ordered=ordered, maxRetransmits=mr, maxPacketLifeTime=mplt, id=cid))
        env.drain()
        ctx.check(cha.id is not None, "id-assigned-at-flush")
        if not custom_id:
            ctx.check(cha.id % 2 == 1, "auto-id-has-the-clients-parity")
        _pump(env, a, b)
        ctx.reach("open-delivered")
        ctx.check(len(events) == 1, "exactly-one-datachannel-event")
        if events:
            chb = events[0]
            ctx.check(sx.eq(chb.id, cha.id), "same-id")
            ctx.check(sx.eq(chb.label, label), "same-label")
            ctx.check(sx.eq(chb.protocol, protocol), "same-protocol")
            ctx.check(chb.ordered == ordered, "same-ordering")
            ctx.check(sx.deep_eq(chb.maxRetransmits, mr), "same-maxRetransmits")
            ctx.check(sx.deep_eq(chb.maxPacketLifeTime, mplt), "same-maxPacketLifeTime")
            ctx.check(chb.readyState == "open", "remote-end-open")
            # the ACK travels back and opens the local end, exactly one open event each
            opens = []
            cha.on("open", lambda: opens.append(1))
            _pump(env, b, a)
            ctx.check(cha.readyState == "open" and len(opens) == 1, "local-end-opens-once-on-ack")
            ctx.observe("label", chb.label)
        ctx.observe("n", len(events))


def h_ids(ctx, role, nexisting, nclosed=0):
    """Automatic id allocation at flush time: role parity, unused, sides never collide."""
    with Env(crc=_crc()) as env:
        t = env.transport(role, established=True, local_tsn=100, remote_tsn=200)
        existing = []
        for i in range(nexisting):
            x = ctx.int("existing%d" % i, 0, 12)
            for y in existing:
                ctx.assume(x != y)
            existing.append(x)
            env.channel(t, id=x)
        # channels (of either side, any id) that lived and were closed before: their ids are free again
        for i in range(nclosed):
            y = ctx.int("closed%d" % i, 0, 12)
            for z in existing:
                ctx.assume(y != z)
            env.channel(t, id=y)
            t._data_channel_closed(y)
        ch = RTCDataChannel(t, RTCDataChannelParameters(label="x"))
        env.drain()
        ctx.reach("id-allocated")
        want_parity = 0 if t.is_server else 1
        ctx.check(ch.id is not None, "id-assigned")
        ctx.check(ch.id % 2 == want_parity, "auto-id-parity-follows-role")
        for x in existing:
            ctx.check(ch.id != x, "auto-id-unused")
        ctx.check(t._data_channels[ch.id] is ch, "registered-under-its-id")
        # smallest free id of that parity
        k = want_parity
        while k < ch.id:
            ctx.check(sx.Or(*[x == k for x in existing]) if existing else False, "auto-id-is-smallest-free")
            k += 2
        ctx.observe("id", ch.id)


def _force_state(ch, state):
    ch._RTCDataChannel__readyState = state


def h_states(ctx, pre, event, negotiated=False):
    """One transport-level event from each abstract channel state; readyState only moves forward,
    at most one open / close emission, closed channels free their id."""
    with Env(crc=_crc()) as env:
        established = pre != "connecting-unestablished"
        t = env.transport("controlling", established=established, local_tsn=100, remote_tsn=200, vtag=1, rtag=2)
        if not established:
            t._last_received_tsn = 199
            t._RTCSctpTransport__started = True
        cid = ctx.int("cid", 0, 65534)
        opens, closes = [], []
        if pre == "connecting-unestablished":
            ch = RTCDataChannel(t, RTCDataChannelParameters(label="l", id=None))
            env.drain()
        elif pre == "connecting":
            ch = RTCDataChannel(t, RTCDataChannelParameters(label="l", id=cid))
            env.drain()
        else:
            ch = env.channel(t, id=cid, negotiated=negotiated)
            if pre in ("closing", "closing-requested"):
                ch.close()
                if pre == "closing-requested":
                    env.drain()  # the reset request has been transmitted
            elif pre == "closed":
                ch.close()
                env.drain()
                ctx.check(t._reconfig_request is not None, "close-on-an-established-channel-requests-a-stream-reset")
                if t._reconfig_request is None:
                    raise sx.PathAbort()
                sx.run(t._receive_reconfig_param(StreamResetResponseParam(response_sequence=t._reconfig_request.request_sequence, result=1)))
                env.drain()
        ch.on("open", lambda: opens.append(1))
        ch.on("close", lambda: closes.append(1))
        r0 = RANK[ch.readyState]
        ba0 = ch.bufferedAmount
        # ---- the event
        if event == "dcep":
            stream = ctx.int("stream", 0, 65534)
            data = ctx.bytes("dcep", 1)
            sx.run(t._data_channel_receive(stream, 50, data))
        elif event == "reset-in":
            s0 = ctx.int("rs0", 0, 65534)
            p = StreamResetOutgoingParam(request_sequence=ctx.int("rseq", 0, U32), response_sequence=0, last_tsn=0, streams=[s0])
            sx.run(t._receive_reconfig_param(p))
        elif event == "reset-response":
            p = StreamResetResponseParam(response_sequence=ctx.int("respseq", 0, U32), result=1)
            sx.run(t._receive_reconfig_param(p))
        elif event == "close":
            ch.close()
        elif event == "send":
            try:
                ch.send(ctx.bytes("payload", 2))
            except sctp.InvalidStateError:
                ctx.check(ch.readyState != "open", "send-refused-only-when-not-open")
        elif event == "assoc-closed":
            t._set_state(State.CLOSED)
        elif event == "assoc-established":
            t._set_state(State.ESTABLISHED)
        env.drain()
        ctx.reach("event-processed")
        r1 = RANK[ch.readyState]
        ctx.check(r1 >= r0, "readyState-only-moves-forward")
        ctx.check(len(opens) <= 1 and len(closes) <= 1, "at-most-one-open-and-one-close-event")
        ctx.check((len(opens) == 1) == (r0 < 1 <= r1 and r1 == 1), "open-event-iff-entering-open")
        ctx.check((len(closes) == 1) == (r0 < 3 and r1 == 3), "close-event-iff-entering-closed")
        if ch.readyState == "closed" and ch.id is not None:
            ctx.check(t._data_channels.get(ch.id) is not ch, "closed-channel-frees-its-id")
        if event == "assoc-closed":
            ctx.check(ch.readyState == "closed", "association-end-closes-every-channel")
        if ch.readyState == "closed":
            ctx.check(ch.bufferedAmount == 0, "bufferedAmount-zero-once-closed")
        ctx.check(ch.bufferedAmount >= 0, "bufferedAmount-never-negative")
        ctx.observe("state", ch.readyState)


class _Yield:
    def __await__(self):
        yield "suspended"


def h_close_interleave(ctx):
    """Two channels are closed one right after the other while the transport write of the first
    stream-reset request is suspended; the two _transmit_reconfig tasks interleave in a
    solver-chosen schedule.  Only one request may be outstanding at a time, and once the peer has
    answered both channels are closed."""
    with Env(crc=_crc()) as env:
        t = env.transport("controlling", established=True, local_tsn=100, remote_tsn=200, vtag=1, rtag=2)
        a, b = env.channel(t, id=1), env.channel(t, id=3)
        sent = []
        suspend = [True]

        async def send_param(param):
            if suspend[0]:
                await _Yield()
            sent.append(param)

        t._send_reconfig_param = send_param
        a.close()
        tasks = list(env.asyncio.queue)
        del env.asyncio.queue[:]
        if ctx.choice("second_close", ["before-the-write-starts", "during-the-write"]) == "during-the-write":
            for c in tasks:  # the first request is being written (suspended) when b is closed
                try:
                    c.send(None)
                except StopIteration:
                    pass
        b.close()
        tasks += list(env.asyncio.queue)
        del env.asyncio.queue[:]
        live = [i for i, c in enumerate(tasks) if c.cr_frame is not None]
        steps = 0
        while live:
            steps += 1
            if steps > 20:
                ctx.fail("close-tasks-do-not-terminate")
                break
            i = live[0] if len(live) == 1 else ctx.choice("run%d" % steps, live)
            try:
                tasks[i].send(None)
            except StopIteration:
                live.remove(i)
        ctx.reach("closes-interleaved")
        reqs = [p for p in sent if isinstance(p, StreamResetOutgoingParam)]
        ctx.check(len(reqs) == 1, "one-reset-request-outstanding-at-a-time", "%d sent before any answer" % len(reqs))
        suspend[0] = False
        for _ in range(3):
            for p in [p for p in sent if isinstance(p, StreamResetOutgoingParam) and not getattr(p, "_answered", False)]:
                p._answered = True
                sx.run(t._receive_reconfig_param(StreamResetResponseParam(response_sequence=p.request_sequence, result=1)))
                env.drain()
        ctx.check(a.readyState == "closed" and b.readyState == "closed", "both-channels-close-once-the-peer-answers", "%s / %s" % (a.readyState, b.readyState))
        ctx.check(1 not in t._data_channels and 3 not in t._data_channels, "ids-freed")
        ctx.observe("n", len(sent))


KINDS = ["reliable", "rexmit", "timed", "unordered"]


def h_flush_params(ctx, n):
    """_data_channel_flush hands every queued message to _send with the reliability of *its own*
    channel: DCEP control messages always reliable and ordered; a data message never inherits the
    lifetime / retransmission limit / ordering of a neighbour flushed in the same call."""
    with Env(crc=_crc()) as env:
        t = env.transport("controlling", established=True, local_tsn=100, remote_tsn=200, vtag=1, rtag=2)
        sends = []

        async def rec(stream_id, pp_id, user_data, expiry=None, max_retransmits=None, ordered=True):
            sends.append((stream_id, pp_id, expiry, max_retransmits, ordered))

        t._send = rec
        chans = []
        for i in range(n):
            kind = ctx.choice("kind%d" % i, KINDS)
            kw = {"rexmit": {"maxRetransmits": 2}, "timed": {"maxPacketLifeTime": 500}, "unordered": {"ordered": False}}.get(kind, {})
            ch = RTCDataChannel(t, RTCDataChannelParameters(label="c%d" % i, id=2 * i, negotiated=True, **kw))
            chans.append(ch)
        env.drain()
        del sends[:]
        msgs = []
        for j in range(n):
            i = ctx.choice("msg%d_channel" % j, list(range(n)))
            dcep = ctx.choice("msg%d_dcep" % j, [False, True])
            t._data_channel_queue.append((chans[i], 50 if dcep else 53, b"m"))
            if not dcep:
                chans[i]._addBufferedAmount(1)
            msgs.append((i, dcep))
        sx.run(t._data_channel_flush())
        ctx.reach("flushed")
        ctx.check(len(sends) == len(msgs), "every-queued-message-is-sent")
        for (i, dcep), (sid, ppid, expiry, mr, ordered) in zip(msgs, sends):
            ch = chans[i]
            ctx.check(sid == ch.id and ppid == (50 if dcep else 53), "message-goes-out-on-its-own-stream")
            if dcep:
                ctx.check(expiry is None and mr is None and ordered is True, "dcep-control-messages-are-reliable-and-ordered", "channel %d: expiry=%r max_retransmits=%r ordered=%r" % (i, expiry, mr, ordered))
            else:
                ctx.check((expiry is None) == (ch.maxPacketLifeTime is None) and mr == ch.maxRetransmits and ordered == ch.ordered, "data-message-uses-its-own-channel-reliability", "channel %d: expiry=%r max_retransmits=%r ordered=%r" % (i, expiry, mr, ordered))
        ctx.observe("n", len(sends))


def h_close_early(ctx, negotiated):
    """close() before the association is up, on a channel with an explicit id (any id, 0 included):
    the channel is closed for good, its id is free for a new channel at once, and establishment
    later opens the new channel only."""
    with Env(crc=_crc()) as env:
        t = env.transport("controlling", established=False, local_tsn=100, remote_tsn=200, vtag=1, rtag=2)
        t._last_received_tsn = 199
        t._RTCSctpTransport__started = True
        cid = ctx.int("cid", 0, 65534)
        old = RTCDataChannel(t, RTCDataChannelParameters(label="old", id=cid, negotiated=negotiated))
        opens, closes = [], []
        old.on("open", lambda: opens.append(1))
        old.on("close", lambda: closes.append(1))
        env.drain()
        old.close()
        env.drain()
        ctx.reach("closed-early")
        ctx.check(old.readyState == "closed", "closed-before-establishment-is-closed")
        ctx.check(all(c is not old for c in t._data_channels.values()), "closed-channel-frees-its-id")
        new = RTCDataChannel(t, RTCDataChannelParameters(label="new", id=cid, negotiated=negotiated))  # must not raise
        env.drain()
        t._set_state(State.ESTABLISHED)
        env.drain()
        ctx.check(old.readyState == "closed" and opens == [] and len(closes) == 1, "readyState-only-moves-forward")
        try:
            old.send(b"x")
            ctx.fail("send-accepted-on-a-closed-channel")
        except sctp.InvalidStateError:
            pass
        ctx.check(new.readyState in ("connecting", "open"), "id-reused-by-a-new-channel")
        if negotiated:
            ctx.check(new.readyState == "open", "negotiated-channel-opens-with-the-association")
        ctx.observe("state", new.readyState)


def h_close_both(ctx, when):
    """close() at any moment closes both ends and frees the id for reuse."""
    with Env(crc=_crc()) as env:
        a, b = _pair(env)
        events = []
        b.on("datachannel", lambda ch: events.append(ch))
        cha = RTCDataChannel(a, RTCDataChannelParameters(label="x"))
        if when == "immediately":
            cha.close()
        env.drain()
        _pump(env, a, b)
        _pump(env, b, a)
        if when == "after-open":
            cha.close()
        env.drain()
        # carry RE-CONFIG chunks both ways until quiet
        for _ in range(4):
            for src, dst in ((a, b), (b, a)):
                sent = src.transport.sent
                while sent:
                    sx.run(dst._handle_data(sent.pop(0)))
                    env.drain()
            _pump(env, a, b)
            _pump(env, b, a)
        ctx.reach("close-exchanged")
        ctx.check(cha.readyState == "closed", "local-end-closed")
        if events:
            ctx.check(events[0].readyState == "closed", "remote-end-closed")
            ctx.check(events[0].id not in b._data_channels, "remote-id-freed")
        ctx.check(cha.id is None or cha.id not in a._data_channels, "local-id-freed")
        ctx.observe("n", len(events))


def h_close_many(ctx, n, gap):
    """Several channels closed one after the other while earlier stream resets are still pending:
    every one of them ends up closed at both ends and its id is freed."""
    with Env(crc=_crc()) as env:
        a, b = _pair(env)
        remote = []
        b.on("datachannel", lambda ch: remote.append(ch))
        chans = [RTCDataChannel(a, RTCDataChannelParameters(label="c%d" % i)) for i in range(n)]
        env.drain()
        _pump(env, a, b)
        _pump(env, b, a)
        ctx.check(all(c.readyState == "open" for c in chans) and len(remote) == n, "all-open")

        def carry(rounds):
            for _ in range(rounds):
                for src, dst in ((a, b), (b, a)):
                    sent = src.transport.sent
                    while sent:
                        sx.run(dst._handle_data(sent.pop(0)))
                        env.drain()

        order = list(range(n))
        first = ctx.choice("first", order)
        order.remove(first)
        chans[first].close()
        env.drain()
        if gap == "after-request":
            pass  # the first RE-CONFIG request is on the wire, its response has not come back
        else:
            carry(1)
        for i in order:
            chans[i].close()
            env.drain()
        carry(2 * n + 2)
        _pump(env, a, b)
        _pump(env, b, a)
        carry(2)
        ctx.reach("many-closed")
        for c in chans:
            ctx.check(c.readyState == "closed", "every-closed-channel-reaches-closed-locally")
            ctx.check(c.id not in a._data_channels, "every-closed-channel-frees-its-id")
        for r in remote:
            ctx.check(r.readyState == "closed", "every-closed-channel-reaches-closed-remotely")
        ctx.check(not a._reconfig_queue and a._reconfig_request is None, "no-stream-reset-left-pending")
        ctx.observe("n", n)


def h_buffered(ctx):
    """_addBufferedAmount: bufferedamountlow fires exactly on downward crossings of the threshold."""
    with Env(crc=_crc()) as env:
        t = env.transport("controlling", established=True, local_tsn=100, remote_tsn=200)
        ch = env.channel(t, id=1)
        cur = ctx.int("current", 0, 1 << 20)
        thr = ctx.int("threshold", 0, U32)
        amount = ctx.int("amount", -(1 << 20), 1 << 20)
        ctx.assume(cur + amount >= 0, "amounts subtracted were added before (B)")
        ch._RTCDataChannel__bufferedAmount = cur
        ch.bufferedAmountLowThreshold = thr
        fired = []
        seen = []
        more = ctx.int("sent_from_handler", 0, 1 << 16)

        def on_low():
            fired.append(1)
            seen.append(ch.bufferedAmount)  # what an application's refill loop reads inside the event
            if len(fired) == 1:
                ch._addBufferedAmount(more)  # ... and it sends more from inside the handler

        ch.on("bufferedamountlow", on_low)
        ch._addBufferedAmount(amount)
        ctx.reach("added")
        if fired:
            ctx.check(sx.eq(seen[0], cur + amount), "handler-sees-the-new-bufferedAmount")
            ctx.check(ch.bufferedAmount == cur + amount + more, "bytes-sent-from-the-handler-are-accounted")
        else:
            ctx.check(ch.bufferedAmount == cur + amount, "bufferedAmount-adds-up")
        crossing = sx.And(cur > thr, cur + amount <= thr)
        ctx.check(sx.Iff(len(fired) == 1, crossing), "bufferedamountlow-iff-downward-crossing")
        ctx.check(len(fired) <= 1, "fires-at-most-once")
        ctx.observe("fired", len(fired))


def h_buffered_flow(ctx, n1, n2, established):
    """bufferedAmount == bytes accepted by send() and not yet handed to the transport."""
    with Env(crc=_crc()) as env:
        t = env.transport("controlling", established=established, local_tsn=100, remote_tsn=200)
        ch = env.channel(t, id=1)
        t._cwnd = ctx.choice("cwnd", [1200, 1 << 20])
        m1 = ctx.bytes("m1", n1)
        m2 = ctx.str("m2", n2, 0, 0x7FF)
        ch.send(m1)
        ctx.check(ch.bufferedAmount == max(1, n1), "bufferedAmount-after-first-send")
        ch.send(m2)
        queued = sum(len(item[2]) for item in t._data_channel_queue if item[0] is ch and item[1] != 50)
        ctx.check(ch.bufferedAmount == queued, "bufferedAmount-equals-queued-bytes")
        env.drain()
        queued = sum(len(item[2]) for item in t._data_channel_queue if item[0] is ch and item[1] != 50)
        ctx.check(ch.bufferedAmount == queued, "bufferedAmount-equals-queued-bytes-after-flush")
        if established:
            # pretend everything outstanding is acknowledged until the queue drains
            for _ in range(6):
                if not t._sent_queue:
                    break
                s = sctp.SackChunk()
                s.cumulative_tsn = t._sent_queue[-1].tsn
                s.advertised_rwnd = 131072
                sx.run(t._receive_sack_chunk(s))
                env.drain()
            ctx.check(ch.bufferedAmount == 0 and not t._data_channel_queue, "bufferedAmount-zero-once-drained")
        ch.close()
        env.drain()
        if ch.readyState == "closed":
            ctx.check(ch.bufferedAmount == 0, "bufferedAmount-zero-after-close-drops-the-queue")
        ctx.reach("flow-done")
        ctx.observe("ba", ch.bufferedAmount)


PRE = ["connecting-unestablished", "connecting", "open", "closing", "closing-requested", "closed"]
EVENTS = ["dcep", "reset-in", "reset-response", "close", "send", "assoc-closed", "assoc-established"]

ENC = [
    "aiortc.rtcsctptransport:RTCSctpTransport._data_channel_open",
    "aiortc.rtcsctptransport:RTCSctpTransport._data_channel_receive",
    "aiortc.rtcsctptransport:RTCSctpTransport._data_channel_flush",
    "aiortc.rtcsctptransport:RTCSctpTransport._data_channel_close",
    "aiortc.rtcsctptransport:RTCSctpTransport._data_channel_closed",
    "aiortc.rtcsctptransport:RTCSctpTransport._data_channel_add_negotiated",
    "aiortc.rtcsctptransport:RTCSctpTransport._data_channel_send",
    "aiortc.rtcsctptransport:RTCSctpTransport._transmit_reconfig",
    "aiortc.rtcsctptransport:RTCSctpTransport._receive_reconfig_param",
    "aiortc.rtcsctptransport:RTCSctpTransport._set_state",
    "aiortc.rtcdatachannel:RTCDataChannel.__init__",
    "aiortc.rtcdatachannel:RTCDataChannel.send",
    "aiortc.rtcdatachannel:RTCDataChannel.close",
    "aiortc.rtcdatachannel:RTCDataChannel._setReadyState",
    "aiortc.rtcdatachannel:RTCDataChannel._addBufferedAmount",
    "aiortc.rtcdatachannel:RTCDataChannel._setId",
]
STUBS = ["DTLS transport -> datagram list", "asyncio.ensure_future/call_later -> run queue / handle recorder", "crc32c -> constant (packets carry a zero checksum)", "time.time -> fixed instant"]


def _open_jobs(tier):
    jobs = []
    lens = [(0, 0), (1, 0), (0, 1), (1, 1), (2, 0)] if tier == "quick" else [(0, 0), (1, 0), (0, 1), (1, 1), (2, 0), (0, 2), (2, 1), (1, 2), (2, 2)]
    for llen, plen in lens:
        for rel in ("reliable", "rexmit", "timed"):
            for ordered in (True, False):
                if tier == "quick" and (llen + plen) >= 2 and not (rel == "reliable" and ordered):
                    continue
                jobs.append({"llen": llen, "plen": plen, "rel": rel, "ordered": ordered, "custom_id": False})
    jobs.append({"llen": 1, "plen": 0, "rel": "reliable", "ordered": True, "custom_id": True})
    return jobs


HARNESSES = {
    "open": Harness("open", h_open, _open_jobs, style="RT", bounds="label and protocol of 0..2 code points each over full Unicode (surrogates excluded), reliable / maxRetransmits / maxPacketLifeTime (16-bit symbolic), ordered or not, automatic or explicit symbolic id", encoded=ENC, stubs=STUBS, twin="open-delivered"),
    "ids": Harness("ids", h_ids, lambda tier: [{"role": r, "nexisting": n} for r in ("controlling", "controlled") for n in (0, 1, 2, 3)] + [{"role": r, "nexisting": n, "nclosed": c} for r in ("controlling", "controlled") for n in (0, 1) for c in (1, 2)], style="STEP", bounds="<=3 existing channels with symbolic distinct ids 0..12, both roles; in a second job set 1..2 further channels (any id, either side's parity) that were closed before", encoded=ENC, stubs=STUBS, twin="id-allocated"),
    "close-interleave": Harness("close-interleave", h_close_interleave, lambda tier: [{}], style="BMC over schedules", bounds="two close() calls whose _transmit_reconfig tasks interleave at the suspension point of the transport write (every schedule), then the peer's answers", encoded=ENC + ["aiortc.rtcsctptransport:RTCSctpTransport._transmit_reconfig"], stubs=STUBS + ["_send_reconfig_param -> suspends once, then records the parameter"], twin="closes-interleaved", opts={"samples": 1}),
    "flush-params": Harness("flush-params", h_flush_params, lambda tier: [{"n": n} for n in ((2,) if tier == "quick" else (2, 3))], style="BMC over configurations", bounds="2 (quick) / 3 negotiated channels of solver-chosen kind {reliable, maxRetransmits, maxPacketLifeTime, unordered}; 2 / 3 queued messages (DCEP or data, solver-chosen channel) flushed in one call", encoded=ENC + ["aiortc.rtcsctptransport:RTCSctpTransport._data_channel_flush"], stubs=STUBS + ["RTCSctpTransport._send -> recorder"], twin="flushed", opts={"samples": 1}),
    "close-early": Harness("close-early", h_close_early, lambda tier: [{"negotiated": n} for n in (True, False)], style="STEP", bounds="one channel with an explicit symbolic id 0..65534 (negotiated or in-band) closed before the association is established, the id re-used at once, then establishment", encoded=ENC, stubs=STUBS, twin="closed-early", opts={"samples": 1}),
    "states": Harness("states", h_states, lambda tier: [{"pre": p, "event": e} for p in PRE for e in EVENTS] + [{"pre": p, "event": e, "negotiated": True} for p in ("open", "closing", "closing-requested", "closed") for e in ("assoc-established", "assoc-closed", "dcep", "reset-in")], style="STEP", bounds="6 abstract pre-states x 7 events; channel id, DCEP message byte, stream ids and sequence numbers of the RE-CONFIG parameters symbolic (the solver decides whether they match the channel / the pending request)", encoded=ENC, stubs=STUBS, twin="event-processed"),
    "close-both": Harness("close-both", h_close_both, lambda tier: [{"when": w} for w in ("immediately", "after-open")], style="RT", bounds="close() immediately after create and after open, two transports exchanging real datagrams", encoded=ENC, stubs=STUBS, twin="close-exchanged"),
    "close-many": Harness("close-many", h_close_many, lambda tier: [{"n": n, "gap": g} for n in ((2, 3) if tier == "quick" else (2, 3, 4)) for g in ("after-request", "after-response")], style="BMC", bounds="2..3 (4) channels closed one after the other (first one solver-chosen) while the previous stream reset request is still unanswered or just answered; real RE-CONFIG datagrams between two transports", encoded=ENC, stubs=STUBS, twin="many-closed"),
    "buffered": Harness("buffered", h_buffered, lambda tier: [{}], style="STEP+LEMMA", bounds="current 0..2^20, threshold 0..2^32-1, amount +-2^20", encoded=ENC, stubs=STUBS, twin="added"),
    "buffered-flow": Harness("buffered-flow", h_buffered_flow, lambda tier: [{"n1": a, "n2": b, "established": e} for a in (0, 1, 3) for b in (0, 1, 2) for e in (True, False)], style="STEP", bounds="two sends (bytes 0..3, str 0..2 code points < U+0800), established or not, cwnd 1200 or large, then close()", encoded=ENC, stubs=STUBS, twin="flow-done"),
}
