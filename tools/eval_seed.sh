#!/bin/bash
# Run the registered check(s) of a property against a seeded change, in a scratch worktree
# (the checks read the tree named by SX_SRC instead of /repo/src; /repo itself is not touched).
#   usage: tools/eval_seed.sh <name under /verif/seeded> [tier] [extra property ids ...]
set -u
NAME="$1"; TIER="${2:-quick}"; shift; shift || true
DIR="/verif/seeded/$NAME"
PROP=$(python3 -c "import json;print(json.load(open('$DIR/meta.json'))['property'])")
WT="/tmp/ev/$NAME"
rm -rf "$WT"; mkdir -p /tmp/ev
git -C /repo worktree add -q --detach "$WT" HEAD || exit 2
trap 'git -C /repo worktree remove --force "$WT" >/dev/null 2>&1' EXIT
git -C "$WT" apply "$DIR/patch.diff" || { echo "$NAME: patch does not apply"; exit 3; }
cd /verif
RES=""
for P in $PROP "$@"; do
  OUT=$(SX_SRC="$WT/src" ./check "$P" --tier "$TIER" --no-evidence 2>&1); RC=$?
  V=$(echo "$OUT" | grep -c "^VIOLATION")
  echo "$NAME: check $P tier=$TIER rc=$RC violations=$V"
  echo "$OUT" | grep -E "^(VIOLATION|  harness=|ENGINE-ERROR|INCONCLUSIVE)" | head -6
  LABELS=$(echo "$OUT" | grep -E "^  harness=" | sed -E 's/^  harness=([^ ]+) label=([^ ]+).*/\1:\2/' | sort -u | head -4 | tr '\n' ' ')
  RES="$RES{\"check\":\"$P\",\"tier\":\"$TIER\",\"rc\":$RC,\"violation_lines\":$V,\"labels\":\"$LABELS\"},"
done
python3 - "$DIR/meta.json" "[${RES%,}]" <<'EOF'
import json, sys
p, res = sys.argv[1], json.loads(sys.argv[2])
m = json.load(open(p))
m.setdefault("check_results", [])
m["check_results"] = [r for r in m["check_results"] if (r["check"], r["tier"]) not in {(x["check"], x["tier"]) for x in res}] + res
m["detected"] = any(r["rc"] == 1 for r in m["check_results"])
json.dump(m, open(p, "w"), indent=1)
EOF
