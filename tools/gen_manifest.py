#!/usr/bin/env python3
"""Regenerates /verif/MANIFEST.json from the table below and harness/__init__.py:REGISTRY."""
import json
import os
import sys

HERE = os.path.dirname(os.path.dirname(os.path.abspath(__file__)))
sys.path.insert(0, HERE)
from harness import REGISTRY  # noqa: E402

TECH = "bounded symbolic execution of the real Python source (sx engine: import-hook AST rewrite + proxy values), z3 deciding every branch and assertion (QF_BV; linear-arithmetic queries that bit-blasting leaves undecided go to a second, integer-sort encoding of the same path condition); counterexamples replayed on the un-instrumented code"

INFO = {
    "C01": {
        "text": "Bounded symbolic model checking of the real SCTP send/receive code: fragmentation round trip, receive-side BMC over solver-chosen arrival schedules (loss, duplication, reordering) with symbolic 32-bit TSN / 16-bit SSN origins and symbolic payload bytes, an end-to-end send->receive round trip for str/bytes (full Unicode, both empties); a BMC with a partially reliable channel next door (abandonment must not cost the reliable channel a message), the per-message reliability parameters chosen at flush time, FORWARD-TSN stream bookkeeping after acknowledgement, and re-use of a stream id after a reset.",
        "note": "Bounds: <=2 streams, <=4 chunks, 4 (quick) / 5-6 arrivals, messages <=3 fragments; fragmentation over a sweep of 9 / 18 boundary lengths up to 65536 (lengths are not symbolic); DTLS transport stubbed by a datagram list; asyncio.ensure_future/call_later stubbed; z3 and the proxy library are trusted (proxies are cross-validated against CPython on every run).",
        "ref": "DESIGN.md 4 C01",
    },
    "C02": {
        "text": "The liveness claim is reduced to no-wedge safety invariants (flight-size accounting, T3 armed iff data outstanding, queue hand-over, retransmission after T3, SACK progress) that are decided by one symbolic step from an arbitrary invariant-satisfying sender state, plus a BMC over two back-to-back real transports with solver-chosen deliver/drop/duplicate/timer events as history witness, the receiver side of 'everything sent is delivered' (receive BMC over fragmented messages) and the same with a partially reliable channel sharing the association. The temporal closure is a paper argument in DESIGN.md.",
        "note": "Bounds: sent queue <=3 (quick) / <=4, <=2 gap blocks, <=5 events; RTO float arithmetic and real timers outside; temporal closure not machine-checked.",
        "ref": "DESIGN.md 4 C02",
    },
    "C03": {
        "text": "Partial: (i) the negotiation kernels (direction algebra, find_common_codecs with symbolic payload types / apt, preferences, header extensions) are executed symbolically against reference conditions; (ii) a BMC over configurations drives one real offer/answer round between two real RTCPeerConnection objects (solver-chosen transceiver kinds/directions on both sides, data channel, codec preference, bundle policies) and checks stable/stable, mirrored m-lines, BUNDLE group, offered codecs with the offerer's payload types, RTX next to its base, header-extension ids, definite DTLS role, complementary current directions; a follow-up negotiation (same or swapped offerer adds a transceiver) must keep mids, transports, ICE roles and both connections alive. Connectivity over ICE/DTLS/SCTP is outside.",
        "note": "Bounds: offer of <=3 remote codecs (kernels); <=2 (quick) / <=3 offerer and <=1 / <=2 answerer transceivers, 2 / 9 bundle policy pairs (real objects). Not claimed: that the negotiated session actually connects and that data channels open (aioice sockets, OpenSSL), negotiations overlapping in time.",
        "ref": "DESIGN.md 4 C03",
    },
    "C04": {
        "text": "Partial: fingerprint policy of _validate_peer_identity / start() gating, the SRTP key/salt layout, the RFC 7983 demultiplexing of _recv_next over all first/second bytes, the per-transport SRTP profile list handed to the DTLS context, and sendability of packets up to 1023 sequence numbers late (against a model of libsrtp's replay window) are executed symbolically with OpenSSL / libsrtp stubbed.",
        "note": "Handshake, certificate parsing and SRTP authentication are C code and outside the claim.",
        "ref": "DESIGN.md 4 C04",
    },
    "C05": {
        "text": "No-crash harnesses: every byte of a bounded-length datagram is symbolic; the real RTP/RTCP/SCTP/codec parsers and receive handlers are executed on it; any exception other than ValueError escaping, or a path exceeding the unwinding budget (hang), is a violation candidate replayed on the plain code. 'Processes subsequent valid traffic normally' is checked for SCTP: after a nonsensical complete DATA message (any TSN / stream sequence number) (also a headless middle / last fragment) or a stray INIT on an established association, two genuine messages must be delivered in order; after a SACK with an arbitrary cumulative TSN the genuine SACK must still be honoured; an empty or one-byte datagram must not end the DTLS receive loop; a stray DCEP message must not move a channel backwards; a SACK that abandons a partly transmitted message must not raise.",
        "note": "Bounds: RTP/RTCP datagrams <=20 B quick / <=24 B thorough (first one or two bytes fixed per job; NACK bitmasks restricted to 3 free bits); SCTP common header + 4..12 B of chunks quick / up to 24 B thorough in 7 association states, plus structure-aware DATA/DCEP, two-DATA and SACK-gap harnesses; real receiver / sender RTCP handlers with payloads <=8 / 12 B. crc32c stubbed so that every structured input passes the checksum (replays carry the real CRC); hangs = paths over the decision budget or a 30 s path cap, confirmed by a concrete replay under a 2 s watchdog; OpenSSL/libsrtp outside.",
        "ref": "DESIGN.md 4 C05",
    },
    "C06": {
        "text": "BMC over two back-to-back real transports with one reliable and one partially reliable channel plus one-step checks from symbolic states: _maybe_abandon on T3 and on the third SACK strike (flight-size / timer invariants), FORWARD-TSN on the receiver incl. messages held behind the abandoned one, FORWARD-TSN acknowledgement bookkeeping on the sender.",
        "note": "Bounds: 2 channels, <=4 chunks, <=6 events; clock stubbed by a symbolic non-decreasing value.",
        "ref": "DESIGN.md 4 C06",
    },
    "C07": {
        "text": "Round-trip harnesses: RTP packets, header extensions, every RTCP packet class, NACK lists, REMB and RTX are built from symbolic fields over their full wire ranges, serialised and parsed by the real code; field-wise equality is an unsat query per path.",
        "note": "Bounds: <=3 CSRC, payload <=4 B, <=4 lost seqs, <=2 reports, mid/rid <=2 chars; os.urandom stubbed by symbolic bytes.",
        "ref": "DESIGN.md 4 C07",
    },
    "C08": {
        "text": "Round trip of every chunk class through the real serialize_packet/parse_packet with symbolic fields (crc32c as an uninterpreted deterministic function), two instances of a class round-tripped in one process (no state shared between chunk objects), plus a bit-precise CRC32c model (validated against google_crc32c each run) for the burst-error clause.",
        "note": "Bounds: user data <=8 B fully symbolic plus a length sweep (quick 36 lengths, thorough every length 1..1200) with symbolic sentinels; <=3 params/gaps/streams; bursts: every start offset and all patterns of <=32 bits on real serialize_packet outputs of 28..64 B (quick 3 shapes, thorough 8 + sampled offsets up to 1212 B), bit order = CRC order. One protocol-inherent known finding (bursts straddling the checksum field, KF-C08-straddling-burst).",
        "ref": "DESIGN.md 4 C08",
    },
    "C09": {
        "text": "Round trip of ICE candidates and of SessionDescription objects built from symbolic fields through the real __str__/parse (symbolic strings with lazy decimal atoms, regex interpreter for the m= line), and of candidates through contrib.signaling's object_to_string/object_from_string with json replaced by a lossless stand-in.",
        "note": "Bounds: <=2 m-lines, <=2 codecs, tokens of 1-2 symbolic lower-case letters, integers over their full ranges as lazy decimal atoms, enumerated attributes varied along 3 (quick) / 6 variant indices (not their product); arbitrary character-level SDP text, descriptions produced by real createOffer/createAnswer (exercised concretely by C14/C03) and the JSON text of contrib.signaling are outside.",
        "ref": "DESIGN.md 4 C09",
    },
    "C10": {
        "text": "One-step inductive check of JitterBuffer.add from an arbitrary invariant-satisfying buffer state (origin, slot occupancy, sequence numbers and timestamps all symbolic) plus a BMC from the constructor state over solver-chosen arrival orders, overflow eviction ending at a frame boundary, release of a complete frame waiting at the origin, and the receiver's forwarding of the key-frame request (real RTCRtpReceiver._handle_rtp_packet with a capacity-4 buffer).",
        "note": "Bounds: capacity 4 quick / 4 and 8 thorough (16,128 outside; the code is parametric in the capacity), prefetch 0..4, audio and video.",
        "ref": "DESIGN.md 4 C10",
    },
    "C11": {
        "text": "NACK generator and retransmission step checks from symbolic states and a closed-loop BMC of the real sender/receiver RTP path over stub transports with solver-chosen loss/duplication/reordering; NACKs also travel serialised (RtcpRtpfbPacket bytes -> parse) before the sender handles them; RTCRtpSender.send() picks the RTX payload type whose apt names the sent codec for any order of the codec list; a packet recovered over RTX (or verbatim) leaves the missing set and is not requested again.",
        "note": "Bounds: <=3 frames x <=2 packets, <=6 network events; SRTP, real codecs and pacing outside.",
        "ref": "DESIGN.md 4 C11",
    },
    "C12": {
        "text": "Differential check of the real RtpRouter against a ~35-line reference router transcribed from the property, over solver-chosen sequences of register/unregister/route operations with symbolic SSRCs and payload types; the dispatch of a compound RTCP datagram while an endpoint is unregistered by an earlier packet's handler; registration of media and RTX SSRCs for receivers that share payload types.",
        "note": "Bounds: <=3 receivers, <=2 senders; every operation sequence of length <=3 (quick, plus four length-4 unregistration histories) / <=4 (plus a length-5 family).",
        "ref": "DESIGN.md 4 C12",
    },
    "C13": {
        "text": "DCEP OPEN fidelity round trip with symbolic Unicode label/protocol, id allocation step, forward-only readyState step from arbitrary channel/association states, bufferedAmount accounting, close() before the association is established (any explicit id, id re-use), reliability parameters per flushed message (DCEP always reliable and ordered), id allocation after channels of either parity were closed, two close() calls interleaving at the suspension point of the transport write, negotiated channels across a repeated ESTABLISHED transition.",
        "note": "Bounds: label/protocol <=2 code points each, <=3 channels; timing outside.",
        "ref": "DESIGN.md 4 C13",
    },
    "C14": {
        "text": "BMC over API call sequences on two real RTCPeerConnection objects driven on a private real event loop: at every step the solver chooses the peer, the call (createOffer, createAnswer, setLocal offer/answer/implicit, setRemote offer/answer/defective with 8 defect kinds, close, close / setLocalDescription started but not yet awaited); after every call signalingState and both descriptions are compared with the JSEP table, failing calls must raise InvalidStateError / ValueError and leave everything unchanged, a successful set*Description must be what local/remoteDescription then report, closed must be absorbing. Explored from the initial state and from the state after one completed offer/answer round.",
        "note": "Bounds: every sequence of <=3 (quick) / <=4 calls on either peer (2 / <=3 after a completed round); offerer with a data channel or data channel + audio transceiver. All data is concrete here (the solver decides the call sequence and the injected defect); pranswer/rollback outside.",
        "ref": "DESIGN.md 4 C14",
    },
    "C15": {
        "text": "Partial: RateCounter window arithmetic (BMC over add/rate sequences with symbolic times and sizes); AimdRateControl.update executed from an arbitrary controller state for 1..3 consecutive calls (never raises, an estimate that rises stays <= 1.5 x latest measurement + 10 kbit/s, over-use cuts to <= 85 % of the latest measurement) with its two pow/float helpers replaced by their integer contracts, which are checked separately (_near_max_rate_increase / _additive_rate_increase / _clamp_bitrate; for _multiplicative_rate_increase that the exponent handed to pow() stays within [0, 1] for any idle time), and the float EWMA _update_max_throughput_estimate checked on its own for 'never raises' (no ZeroDivisionError at zero throughput) with floats modelled as exact rationals of symbolic integers; the estimator orchestration (SSRC list, REMB encodability, measurement window) with the Kalman/over-use pipeline stubbed by arbitrary values; a concrete-count run with 256 SSRCs.",
        "note": "Not claimed: InterArrival / OveruseEstimator / OveruseDetector numerics (float recursion), avg_max_bitrate_kbps other than None/1000.0 (sqrt). Bounds: window 2..3 (quick) / 2..8 ms, sequences of 4..5 calls, <=3 packets in the orchestration, rates 0..2^32-1. Quotients of integers are exact rationals; round(0.85*T) is over-approximated by an integer band (DESIGN 10.2); sites are listed in evidence. The linear arithmetic of update() is decided on the integer mirror of the path condition.",
        "ref": "DESIGN.md 4 C15, 10.2",
    },
    "C16": {
        "text": "Round trip of the real H.264 and VP8 packetisers/depacketisers with symbolic NAL header bits and contents over a boundary sweep of sizes; payload size limit, FU-A S/E bits, STAP-A recovery and VP8 descriptor round trip are asserted.",
        "note": "Bounds: <=3 NALs; sizes from a boundary sweep (2,3,1296..1302,2594..2600,...,60000) with symbolic content at the edges.",
        "ref": "DESIGN.md 4 C16",
    },
    "C17": {
        "text": "Serial-arithmetic lemmas over the full 16/32-bit domains (one unsat query each) and relational (origin-shift, 2-safety) checks: jitter buffer, NACK generator, receiver statistics, timestamp mapper, SCTP receiver incl. SACK gap blocks and SCTP sender SACK processing are run twice inside one path (symbolic origin vs small concrete origin) and all observables must agree after un-shifting.",
        "note": "Lemmas are unbounded in the values; relational scenarios of 2..3 (quick) / 2..5 steps with small symbolic relative offsets. The BMC harnesses of C01/C02/C06/C10/C11/C18 additionally run with symbolic origins and near-wrap variants.",
        "ref": "DESIGN.md 4 C17",
    },
    "C18": {
        "text": "One-step check of StreamStatistics.add / report generation from an arbitrary invariant-satisfying state against the RFC 3550 A.1/A.3/A.8 reference, plus BMC of <=5 packets from a fresh object; every report field must pack, including LSR/DLSR computed from a symbolic wall-clock distance to the last sender report (negative, zero, up to 2^40 ms); per-SSRC counting of RTX / padding packets at the receiver; report rounds for 1..130 SSRCs (at most 31 blocks per packet).",
        "note": "Arrival clock is a symbolic integer; clockrate multiplication abstracted.",
        "ref": "DESIGN.md 4 C18",
    },
}

NOT_APPLICABLE = {
    "C19": "close() completion quantifies over asyncio interleavings, cancellation points, OS threads and C-level transports (aioice sockets, OpenSSL); there is no symbolic data for a solver to decide and the event loop / thread / socket layer cannot be encoded. The one data-dependent way for stop() to hang (a report field overflowing its wire width in _run_rtcp) is covered under C18.",
}


def main():
    checks = []
    na = []
    for pid in ["C%02d" % i for i in range(1, 20)]:
        if pid in NOT_APPLICABLE:
            na.append({"property_id": pid, "reason": NOT_APPLICABLE[pid]})
            continue
        if pid not in REGISTRY:
            na.append({"property_id": pid, "reason": "check under construction in this session (design in DESIGN.md section 4); not claimed until its harness is registered"})
            continue
        info = INFO[pid]
        checks.append(
            {
                "property_id": pid,
                "quick_cmd": "./check %s --tier quick" % pid,
                "thorough_cmd": "./check %s --tier thorough" % pid,
                "evidence_file": "/verif/evidence/%s.json" % pid,
                "replay_cmd_template": "./check --replay {path}",
                "engine": "sx",
                "level_claimed": {"category": "model_checking", "text": info["text"], "design_ref": info["ref"]},
                "level_note": info["note"],
                "technique": TECH,
            }
        )
    man = {
        "version": 1,
        "setup_cmd": "./check setup",
        "hooks": {
            "guard": "AIORTC_VERIF",
            "enable": "none needed: the checks load /repo/src through an import hook (sx/loader.py) that rewrites and instruments the modules in memory; no source hooks are committed to /repo",
            "baseline_off_cmd": "cd /repo && /venv/bin/python -m pytest -ra -q -p no:cacheprovider --timeout=900 --continue-on-collection-errors",
            "source_commits": [],
            "add_only": True,
        },
        "engines": [
            {
                "name": "sx",
                "path": "/verif/sx",
                "serves_properties": [c["property_id"] for c in checks],
                "kind_free_text": "path-wise bounded symbolic execution of the real aiortc Python source with z3 (QF_BV) and concrete replay of every counterexample on the un-instrumented code",
            }
        ],
        "checks": checks,
        "not_applicable": na,
        "notes": "Exit codes of every check: 0 held on everything explored, 1 confirmed violation (VIOLATION line; every violation is first replayed on the un-instrumented code in a fresh interpreter), 2 inconclusive (solver unknown, or - quick tier only - time budget exhausted; never counted as success), 3 harness/engine error. The thorough tier is an anytime exploration: the quick tier's jobs run first, and jobs not explored completely within the time budget are listed in evidence (coverage.incomplete_jobs, exhaustive=false) and not claimed. Engine options: 'sx' also keeps an integer-sort encoding of each path condition for linear arithmetic (DESIGN 10.2); C17 additionally runs CrossHair on its lemmas; './check selftest' checks the proxies against CPython and the solver verdicts against z3 4.8 / cvc5. known_findings.json lists recorded findings and fixed defects.",
    }
    with open(os.path.join(HERE, "MANIFEST.json"), "w") as f:
        json.dump(man, f, indent=1)
        f.write("\n")


if __name__ == "__main__":
    main()
