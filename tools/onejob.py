#!/usr/bin/env python3
"""Debug helper: run one harness job in-process.

    PYTHONPATH=.deps:. /venv/bin/python tools/onejob.py C07 rtp '{"mask": 127, ...}' [budget_s] [--prof]
"""
import importlib
import json
import sys
import time

sys.path.insert(0, "/verif")
from harness import REGISTRY, profiles  # noqa: E402
from sx import core, loader  # noqa: E402

prop, hname, params = sys.argv[1], sys.argv[2], json.loads(sys.argv[3])
budget = float(sys.argv[4]) if len(sys.argv) > 4 and not sys.argv[4].startswith("-") else 30
pr = profiles.for_property(prop)
loader.install(pr["modules"], default=pr.get("default"))
mod = importlib.import_module(REGISTRY[prop])
h = mod.HARNESSES[hname]
if params == {"list": 1}:
    for j in h.jobs("quick"):
        print(json.dumps(j))
    sys.exit(0)
t0 = time.time()
opts = dict(h.opts)
from sx.runner import load_known  # noqa: E402

opts["known"] = [k for k in load_known(prop) if k.get("status") == "known" and k.get("harness") in (None, hname)]
if "--prof" in sys.argv:
    import cProfile
    import pstats

    prof = cProfile.Profile()
    prof.enable()
res = core.explore(h.fn, params, opts=opts, budget_s=budget)
if "--prof" in sys.argv:
    prof.disable()
    pstats.Stats(prof).sort_stats("cumulative").print_stats(35)
print(
    "paths=%d cut=%d abort=%d decisions=%d depth=%d leftover=%d queries=%s wall=%.1f"
    % (res.paths, res.cut, res.aborted, res.decisions, res.max_depth, len(res.leftover), res.stats.as_dict(), time.time() - t0)
)
for k, v in res.violations.items():
    print("VIOL", k, v.get("detail"), v["inputs"])
for e in res.errors[:3]:
    print("ERR", e)
print("inconclusive", res.inconclusive[:3], "cut", res.cut_reasons, "reached", sorted(res.reached)[:40])
