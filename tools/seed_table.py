#!/usr/bin/env python3
"""Print the DESIGN 10.5 table from /verif/seeded/*/meta.json (written by tools/eval_seed.sh)."""
import json
import os
import sys

HERE = os.path.dirname(os.path.dirname(os.path.abspath(__file__)))


def short(s, n):
    s = " ".join(str(s or "").split())
    return s if len(s) <= n else s[: n - 1].rstrip() + "…"


rows = []
for nm in sorted(os.listdir(os.path.join(HERE, "seeded"))):
    f = os.path.join(HERE, "seeded", nm, "meta.json")
    if not os.path.exists(f):
        continue
    m = json.load(open(f))
    res = m.get("check_results", [])
    hit = [r for r in res if r.get("rc") == 1]
    at_head = m.get("at_head", {})
    if at_head.get("demo_patched_rc") == 0 and at_head.get("demo_clean_rc") == 0:
        caught = "n/a at the final HEAD: its demo passes with the patch applied - the change was neutralised by a later `fix:` commit" + ((" (before that: %s)" % "; ".join("%s %s" % (r["check"], (r.get("labels") or "").strip()) for r in hit)) if hit else "")
    elif hit:
        caught = "; ".join("%s %s" % (r["check"], (r.get("labels") or "").strip() or "(violation)") for r in hit)
    elif m.get("outside_claim"):
        caught = "**not caught — outside the claim**: " + m["outside_claim"]
    elif res:
        caught = "**missed** (rc %s)" % ",".join(str(r.get("rc")) for r in res)
    else:
        caught = "(not evaluated)"
    rows.append("| %s | %s | %s | %s |" % (nm, short(m.get("summary"), 150), short(m.get("needs_to_manifest"), 110), caught.replace("|", "/")))
print("| seeded change | what it does | what it needs to manifest | caught by (quick tier) |")
print("|---|---|---|---|")
print("\n".join(rows))
n = len(rows)
na = sum(1 for r in rows if "n/a at the final HEAD" in r)
d = sum(1 for r in rows if "**" not in r.split("|")[-2] and "n/a at the final HEAD" not in r)
print("\n%d seeded changes; %d no longer break anything at the final HEAD; of the other %d, %d are reported (exit 1, replay confirmed) by a registered quick check." % (n, na, n - na, d), file=sys.stderr)
