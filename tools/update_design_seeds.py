#!/usr/bin/env python3
"""Rewrite section 10.5 of DESIGN.md (seeded changes) from seeded/*/meta.json."""
import os
import subprocess
import sys

HERE = os.path.dirname(os.path.dirname(os.path.abspath(__file__)))
p = os.path.join(HERE, "DESIGN.md")
s = open(p).read()
i = s.index("### 10.5 Seeded changes")
table = subprocess.run([sys.executable, os.path.join(HERE, "tools", "seed_table.py")], capture_output=True, text=True)
summary = table.stderr.strip()
INTRO = """### 10.5 Seeded changes (independent sub-agents) and which check catches them

Seven rounds of seeding were run during the build (the sixth in two halves, the seventh for sixteen
of the eighteen claimed properties). In each round a fresh sub-agent per property saw
only the property text (statement, quantifier, mechanisms, observation points) and its own scratch
git worktree — nothing from `/verif` — and produced two changes that break the property, pass the
full unedited test suite and come with a demonstration program. From round 3 on the prompt also
listed the one-line summaries of that property's earlier changes with the request to attack a
different function and a clause nobody had touched yet (round 4 added, for C03 only, the hint to
prefer changes visible in the offer/answer exchange rather than only on a live connection). A
change was kept only after I re-ran, in a scratch worktree of `/repo` HEAD, the demo on the clean
tree (passes), the demo with the patch (fails) and the full test suite with the patch (495 pass; a
load-sensitive test that fails once is re-run alone twice). `tools/eval_seed.sh` runs the
property's registered quick check against a scratch worktree with the patch applied (`SX_SRC`),
never inside `/repo`; results and the violated labels are stored in each `seeded/*/meta.json`, and
`./check selftest --seeds` repeats the whole matrix. Seven patches were rebased by hand after a
`fix:` commit touched their lines (noted in their meta.json); every demo was re-run against the
final `/repo` HEAD (`at_head` in meta.json).

**What the rounds showed.** Rounds 1-2 (44 changes): about 10 were missed at first. Round 3 (34): 8
missed. Round 4 (36, aimed at untouched clauses): 15 missed. Round 5 (35): 12 missed (counting five
that I pre-empted from the agents' summaries before their evaluation). Round 6 (17 + 18): 9 + 6 missed
(C16 65536 frames through one encoder -> inductive `vp8-stream`; C04 digest cache keyed by serial
number -> `digest`; C12 RTX on a later encoding, BYE with reason text -> `register-rtx` layouts,
`rtcp-wire`; C15 abs-send-time 0 dropped by a truthiness test, class-level SSRC table ->
`receiver-feed`, `two-estimators`; C09 whitespace-only fmtp segment -> untidy lists in
`fmtp-spacing`). Round 7: misses were C04 (a compound RTCP datagram cut short after an unroutable
packet -> `rtcp-delivery`), C10 x2 (RTX arrival x jitter buffer -> `receiver-pli` with a
retransmitted packet), C12 (SR with two report blocks -> `rtcp-wire`), C09 (a role without
fingerprints -> `description` with 0..2 fingerprints); see the table for the rest. Every miss led to a stronger
check, except the one that stays outside the claimed scope (below). The sub-agents' side remarks about the *unmodified* tree (asked for explicitly in round 6) pointed
at a dozen genuine defects, each of which was first reproduced by a strengthened check and then
repaired (section 10.3). The recurring reasons for a miss, and
what was done about each:

* *history deeper than the quick bound* — C12 (register, register, unregister, route), C14 (a
  completed round first), C01/C02 (fragment repair followed by a buffered message): targeted
  longer histories were added to the quick job sets, or a scripted prefix puts the system into
  the interesting state and the exploration starts there (C14 `pre=round`);
* *interaction between two objects the harness had only one of* — reliable next to partially
  reliable channels (C01/C02 `mixed-pr`), two chunk objects in one process (C08
  `roundtrip-twice`), two channels in one flush (C13/C01 `flush-params`), two transports on one
  certificate (C04 `ssl-profiles`), stream-id re-use (C01 `reuse`);
* *a clause of the statement nobody had turned into an assertion* — "processes subsequent valid
  traffic normally" (C05 `sctp-then-valid`, `sctp-init-then-valid`: these found two genuine
  defects), the receiver actually sending the PLI (C10 `receiver-pli`), eviction at frame
  boundaries (C10), DLSR in receiver reports (C18), demultiplexing (C04 `demux`), the 85 % cut
  and "never raises" at zero throughput (C15 `aimd-update`, `aimd-max-estimate`: one genuine
  defect), RTX payload-type selection (C11 `send-rtx`), the signalling helper (C09
  `signaling`), follow-up negotiations (C03);
* *my harness overrode the thing that was changed* — C03 patched `DYNAMIC_PAYLOAD_TYPES` with a
  literal range; it now derives the proxy from the code's own constant;
* *operations in flight / schedules* — C14 `close-begin` / `setLocal-begin` start a call without
  awaiting it and judge the following calls against the state that call leads to; C01
  `interleave` lets several `_send` tasks interleave at the transport's suspension point under a
  solver-chosen schedule; C12 `compound` unregisters an endpoint while an earlier packet of the
  same datagram is being handled.

Not caught, and why: **C03-m3** needs two negotiations overlapping in time on a live ICE/DTLS
connection (outside the C03 claim). **C02-m12** (round 7, evaluated in the last hour) advances the
per-stream outbound sequence number without the modulo, so the 65537th ordered message on one
channel cannot be serialised: the history is far beyond every bound, and no harness had
`_outbound_stream_seq` in its symbolic pre-state; `step-send` now draws that counter from the
whole 16-bit range and asserts that it advances modulo 2^16 and that every fragment serialises,
which reports the change in one inductive step.
Changes caught only by a *sibling* property's check are shown
with that check in the table (C05-m3 after fix ea7c0f1: C01/C17; C05-m4: C15; C05-m12: C06/C17).

"""
out = s[:i] + INTRO + table.stdout + "\n" + summary + "\n"
open(p, "w").write(out)
print(summary)
