#!/bin/bash
# Confirm a seeded change in a scratch worktree (outside /repo and /verif), then file it under
# /verif/seeded/<name>/.   usage: tools/confirm_seed.sh <property> <srcdir with patch.diff demo.py meta.json> <name>
set -u
PROP="$1"; SRC="$2"; NAME="$3"
WT="/tmp/mw/$NAME"
OUT="/verif/seeded/$NAME"
rm -rf "$WT"; mkdir -p /tmp/mw
git -C /repo worktree add -q --detach "$WT" HEAD || exit 2
cleanup() { git -C /repo worktree remove --force "$WT" >/dev/null 2>&1; }
trap cleanup EXIT
cd "$WT" || exit 2
export PYTHONPATH="$WT/src"
# demo on the clean tree must pass
sed "s#/tmp/seed/$PROP#$WT#g" "$SRC/demo.py" > "$WT/demo_seed.py"
timeout 900 /venv/bin/python "$WT/demo_seed.py" >/tmp/mw/$NAME.clean.log 2>&1; CLEAN=$?
git apply "$SRC/patch.diff" || { echo "$NAME: patch does not apply"; exit 3; }
timeout 900 /venv/bin/python "$WT/demo_seed.py" >/tmp/mw/$NAME.patched.log 2>&1; PATCHED=$?
timeout 2400 /venv/bin/python -m pytest -q -p no:cacheprovider --timeout=900 tests >/tmp/mw/$NAME.tests.log 2>&1; TESTS=$?
SUMMARY=$(tail -1 /tmp/mw/$NAME.tests.log)
if [ "$TESTS" != 0 ]; then
  # the suite has load-sensitive tests (real sockets, timing): re-run only the failed tests, alone
  FAILED=$(grep -E "^(FAILED|ERROR) tests/" /tmp/mw/$NAME.tests.log | awk '{print $2}' | sort -u)
  if [ -n "$FAILED" ] && [ "$(echo "$FAILED" | wc -l)" -le 3 ]; then
    if timeout 900 /venv/bin/python -m pytest -q -p no:cacheprovider --timeout=900 $FAILED >/tmp/mw/$NAME.retest.log 2>&1 \
       && timeout 900 /venv/bin/python -m pytest -q -p no:cacheprovider --timeout=900 $FAILED >>/tmp/mw/$NAME.retest.log 2>&1; then
      TESTS=0
      SUMMARY="$SUMMARY; the failed test(s) $(echo $FAILED) passed twice when re-run alone (load-sensitive)"
    fi
  fi
fi
echo "$NAME: demo_clean_rc=$CLEAN demo_patched_rc=$PATCHED tests_rc=$TESTS ($SUMMARY)"
if [ "$CLEAN" = 0 ] && [ "$PATCHED" != 0 ] && [ "$TESTS" = 0 ]; then
  mkdir -p "$OUT"
  cp "$SRC/patch.diff" "$OUT/patch.diff"
  cp "$WT/demo_seed.py" "$OUT/demo.py"
  sed -i "s#$WT#/repo#g" "$OUT/demo.py"
  python3 - "$SRC/meta.json" "$OUT/meta.json" "$PROP" "$CLEAN" "$PATCHED" "$SUMMARY" <<'EOF'
import json, sys
src, dst, prop, clean, patched, summary = sys.argv[1:7]
try:
    m = json.load(open(src))
except Exception:
    m = {}
m["property"] = prop
m["confirmed"] = {
    "what_was_run": "scratch worktree of /repo HEAD: demo on clean tree, git apply patch.diff, demo again, full pytest suite with the patch",
    "demo_clean_rc": int(clean), "demo_patched_rc": int(patched), "test_suite": summary,
}
json.dump(m, open(dst, "w"), indent=1)
EOF
  echo "$NAME: KEPT"
else
  echo "$NAME: REJECTED"
fi
