#!/usr/bin/env python3
"""Validate MANIFEST.json and evidence/*.json against the schemas (run with python3-vt)."""
import glob, json, sys
import jsonschema
ok = True
man = json.load(open('/verif/MANIFEST.json'))
jsonschema.validate(man, json.load(open('/root/.vp/MANIFEST.schema.json')))
es = json.load(open('/root/.vp/EVIDENCE.schema.json'))
for c in man['checks']:
    try:
        jsonschema.validate(json.load(open(c['evidence_file'])), es)
    except Exception as e:
        ok = False
        print('BAD', c['evidence_file'], str(e)[:300])
print('ok' if ok else 'FAILED')
sys.exit(0 if ok else 1)
