"""Concrete replay on the plain, un-instrumented aiortc.

    python -m sx.replay <replay.json>        exit 1 + VIOLATION line if the violation reproduces
    python -m sx.replay --batch <file.json>  (used by the runner) prints one JSON line of results
"""
from __future__ import annotations

import importlib
import json
import os
import sys


def _run_item(item, known_all):
    from . import conv, core

    mod = importlib.import_module(item["module"])
    h = mod.HARNESSES[item["harness"]]
    params = item.get("params") or {}
    values = conv.unjson(item["inputs"])
    known = [k for k in known_all if k.get("property") == mod.PROPERTY and k.get("status") == "known" and k.get("harness") in (None, item["harness"])]
    ctx, outcome, info = core.run_concrete(h.fn, params, values, opts={"known": known})
    return {
        "outcome": outcome,
        "info": info,
        "violations": sorted(ctx.violations),
        "details": {k: v.get("detail", "") for k, v in ctx.violations.items()},
        "known_hits": sorted(ctx.known_hits),
        "obs": conv.jsonable([(k, v) for k, v in ctx.observations]),
    }


def main(argv=None):
    argv = list(sys.argv[1:] if argv is None else argv)
    if "aiortc" in sys.modules:
        print("aiortc already imported", file=sys.stderr)
        return 3
    verif = os.path.dirname(os.path.dirname(os.path.abspath(__file__)))
    kf = os.path.join(verif, "known_findings.json")
    known = json.load(open(kf)).get("findings", []) if os.path.exists(kf) else []
    if argv and argv[0] == "--batch":
        items = json.load(open(argv[1]))
        out = []
        for it in items:
            try:
                out.append(_run_item(it, known))
            except BaseException as e:  # noqa: BLE001
                out.append({"outcome": "crash", "info": "%s: %s" % (type(e).__name__, e), "violations": [], "known_hits": [], "obs": None})
        print(json.dumps(out))
        return 0
    item = json.load(open(argv[0]))
    r = _run_item(item, known)
    if item["label"] in r["violations"]:
        print("VIOLATION property=%s replay=%s" % (item.get("property"), argv[0]))
        print("  harness=%s label=%s %s" % (item["harness"], item["label"], r["details"].get(item["label"], "")))
        return 1
    if r["known_hits"]:
        print("KNOWN-FINDING: property=%s %s" % (item.get("property"), ",".join(r["known_hits"])))
        return 0
    print("replay did not reproduce %r: %r" % (item["label"], r))
    return 0


if __name__ == "__main__":
    sys.exit(main())
