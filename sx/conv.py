"""Turning proxies into concrete Python values under a solver model."""
from __future__ import annotations

import z3

from .bytes_ import SymBytes
from .ints import SymBool, SymInt


def concretize(v, m):
    if isinstance(v, SymInt):
        r = m.eval(v.t, model_completion=True)
        return r.as_signed_long()
    if isinstance(v, SymBool):
        return z3.is_true(m.eval(v.t, model_completion=True))
    if isinstance(v, SymBytes):
        return bytes(concretize(x, m) & 0xFF for x in v.items)
    if isinstance(v, (list, tuple)):
        r = [concretize(x, m) for x in v]
        return r if isinstance(v, list) else tuple(r)
    if isinstance(v, dict):
        return {concretize(k, m): concretize(x, m) for k, x in v.items()}
    c = getattr(v, "sx_concretize", None)
    if c is not None:
        return c(m)
    return v


def jsonable(v):
    if isinstance(v, (bytes, bytearray)):
        return {"hex": bytes(v).hex()}
    if isinstance(v, (list, tuple)):
        return [jsonable(x) for x in v]
    if isinstance(v, dict):
        return {str(k): jsonable(x) for k, x in v.items()}
    if isinstance(v, (int, float, str, bool)) or v is None:
        return v
    return repr(v)


def unjson(v):
    if isinstance(v, dict) and set(v.keys()) == {"hex"}:
        return bytes.fromhex(v["hex"])
    if isinstance(v, list):
        return [unjson(x) for x in v]
    if isinstance(v, dict):
        return {k: unjson(x) for k, x in v.items()}
    return v
