"""A small backtracking regular-expression matcher over SymStr items (DESIGN 2.2).

Interprets the parse tree of Python's own `re._parser`, so the pattern language is exactly the one
of the source; supported nodes: literals, character classes (ranges, negation, \\d), `.`, greedy /
lazy repeats, groups, alternation, `^`/`$`.  A symbolic character forks only where its interval
does not decide class membership.  A decimal atom (a non-empty run of digits of unknown length) is
consumed whole by a repeat of a class that accepts every digit; anything finer is Unsupported.
Concrete subjects go to the real `re`.
"""
from __future__ import annotations

import re as _re

try:
    import re._parser as _parser  # py3.11+
    import re._constants as _c
except ImportError:  # pragma: no cover
    import sre_constants as _c
    import sre_parse as _parser

from .core import Unsupported
from .strs import DecAtom, SymStr, _char_eq, _may_be, mkstr


class _Match:
    def __init__(self, items, groups, end):
        self._items, self._groups, self._end = items, groups, end

    def group(self, n=0):
        if n == 0:
            return mkstr(self._items[0 : self._end])
        g = self._groups.get(n)
        if g is None:
            return None
        return mkstr(self._items[g[0] : g[1]])

    def groups(self):
        n = max(self._groups) if self._groups else 0
        return tuple(self.group(i) for i in range(1, n + 1))


def _class_accepts_all_digits(av):
    neg = False
    ok = False
    for op, a in av:
        if op is _c.NEGATE:
            neg = True
        elif op is _c.RANGE and a[0] <= 0x30 and a[1] >= 0x39:
            ok = True
        elif op is _c.CATEGORY and a is _c.CATEGORY_DIGIT:
            ok = True
        elif op is _c.LITERAL and 0x30 <= a <= 0x39:
            return None  # mentions single digits: undecidable for an atom
    if neg:
        # negated class accepts all digits iff nothing inside touches digits
        for op, a in av:
            if op is _c.RANGE and not (a[1] < 0x30 or a[0] > 0x39):
                return None
            if op is _c.CATEGORY:
                return None
        return True
    return ok


def _in_class(c, av, ignorecase):
    """char item c in class -> bool (forks when undecided)."""
    neg = False
    res = False
    for op, a in av:
        if op is _c.NEGATE:
            neg = True
            continue
        if op is _c.LITERAL:
            r = _char_eq(c, a)
            if r is False and ignorecase and chr(a).isalpha():
                r = _char_eq(c, ord(chr(a).swapcase()))
        elif op is _c.RANGE:
            r = _may_be(c, a[0], a[1])
            if r is False and ignorecase:
                lo, hi = chr(a[0]), chr(a[1])
                if lo.isalpha() and hi.isalpha():
                    r = _may_be(c, ord(lo.swapcase()), ord(hi.swapcase()))
        elif op is _c.CATEGORY and a is _c.CATEGORY_DIGIT:
            r = _may_be(c, 0x30, 0x39)
        else:
            raise Unsupported("regex class item %r" % (op,))
        if r is True or (r is not False and bool(r)):
            res = True
            break
    return (not res) if neg else res


def _match_one(node, items, i, ignorecase):
    """Match a single-character node at items[i]; returns True/False."""
    op, av = node
    it = items[i]
    if isinstance(it, DecAtom):
        raise Unsupported("single regex element against a decimal atom")
    if op is _c.LITERAL:
        r = _char_eq(it, av)
        if r is False and ignorecase and chr(av).isalpha():
            r = _char_eq(it, ord(chr(av).swapcase()))
        return r is True or (r is not False and bool(r))
    if op is _c.NOT_LITERAL:
        r = _char_eq(it, av)
        return not (r is True or (r is not False and bool(r)))
    if op is _c.ANY:
        r = _char_eq(it, 0x0A)
        return not (r is True or (r is not False and bool(r)))
    if op is _c.IN:
        return _in_class(it, av, ignorecase)
    raise Unsupported("regex node %r" % (op,))


def _single(node):
    return node[0] in (_c.LITERAL, _c.NOT_LITERAL, _c.ANY, _c.IN)


def _atom_ok(node):
    """Can a repeat of this single-char node swallow a whole decimal atom?"""
    op, av = node
    if op is _c.ANY:
        return True
    if op is _c.IN:
        return _class_accepts_all_digits(av)
    if op is _c.NOT_LITERAL:
        return not (0x30 <= av <= 0x39)
    return False


def _m(seq, k, items, i, groups, ignorecase, cont):
    """Match seq[k:] at position i; call cont(i, groups) on success (generator-free backtracking)."""
    if k == len(seq):
        return cont(i, groups)
    node = seq[k]
    op, av = node
    if op is _c.AT:
        if av is _c.AT_BEGINNING or av is _c.AT_BEGINNING_STRING:
            return _m(seq, k + 1, items, i, groups, ignorecase, cont) if i == 0 else None
        if av is _c.AT_END or av is _c.AT_END_STRING:
            return _m(seq, k + 1, items, i, groups, ignorecase, cont) if i == len(items) else None
        raise Unsupported("regex anchor")
    if op is _c.SUBPATTERN:
        gid, _, _, sub = av
        start = i

        def after(j, g):
            g2 = dict(g)
            if gid is not None:
                g2[gid] = (start, j)
            return _m(seq, k + 1, items, j, g2, ignorecase, cont)

        return _m(list(sub), 0, items, i, groups, ignorecase, after)
    if op is _c.BRANCH:
        for alt in av[1]:
            r = _m(list(alt), 0, items, i, groups, ignorecase, lambda j, g: _m(seq, k + 1, items, j, g, ignorecase, cont))
            if r is not None:
                return r
        return None
    if op in (_c.MAX_REPEAT, _c.MIN_REPEAT):
        lo, hi, sub = av
        sub = list(sub)
        if len(sub) != 1 or not _single(sub[0]):
            raise Unsupported("repeat of a compound regex element")
        node1 = sub[0]
        # collect the maximal run of items the element can consume
        ends = [i]
        j = i
        while j < len(items) and (hi is _c.MAXREPEAT or len(ends) - 1 < hi):
            it = items[j]
            if isinstance(it, DecAtom):
                ok = _atom_ok(node1)
                if ok is None:
                    raise Unsupported("regex class splits a decimal atom")
                if not ok:
                    break
            elif not _match_one(node1, items, j, ignorecase):
                break
            j += 1
            ends.append(j)
        cands = [e for n, e in enumerate(ends) if n >= lo]
        if op is _c.MAX_REPEAT:
            cands.reverse()
        for e in cands:
            r = _m(seq, k + 1, items, e, groups, ignorecase, cont)
            if r is not None:
                return r
        return None
    if _single(node):
        if i >= len(items):
            return None
        if not _match_one(node, items, i, ignorecase):
            return None
        return _m(seq, k + 1, items, i + 1, groups, ignorecase, cont)
    raise Unsupported("regex node %r" % (op,))


def sym_match(pattern, s, flags=0):
    tree = _parser.parse(pattern, flags)
    ignorecase = bool(flags & _re.I)
    items = s.cps
    r = _m(list(tree), 0, items, 0, {}, ignorecase, lambda j, g: (j, g))
    if r is None:
        return None
    return _Match(items, r[1], r[0])


class ReShim:
    """Stands in for the `re` module."""

    def __getattr__(self, name):
        return getattr(_re, name)

    @staticmethod
    def match(pattern, string, flags=0):
        if isinstance(string, SymStr):
            return sym_match(pattern, string, flags)
        return _re.match(pattern, string, flags)


re_shim = ReShim()
