"""Import hook: loads aiortc from the *current* source tree, with per-module AST rewrite and
name injection, so that the real code runs on proxies (DESIGN 2.1).

    loader.install({"aiortc.rtp": Profile(names={...}, rewrite={"join"})})

must be called before `aiortc` is imported.  The encoding is therefore regenerated from
/repo/src (or $SX_SRC) on every run; nothing is cached.
"""
from __future__ import annotations

import ast
import hashlib
import importlib.abc
import importlib.util
import os
import sys

SRC = os.environ.get("SX_SRC", "/repo/src")


class Profile:
    def __init__(self, names=None, rewrite=(), post=None):
        self.names = dict(names or {})
        self.rewrite = set(rewrite)
        self.post = post  # optional callable(module) run after exec


_PROFILES: dict[str, Profile] = {}
_DEFAULT: Profile | None = None
LOADED: dict[str, str] = {}  # module name -> sha1 of source text actually loaded


class _Rewriter(ast.NodeTransformer):
    def __init__(self, flags):
        self.flags = flags

    def visit_Call(self, node):
        self.generic_visit(node)
        f = node.func
        if (
            "join" in self.flags
            and isinstance(f, ast.Attribute)
            and f.attr == "join"
            and isinstance(f.value, ast.Constant)
            and isinstance(f.value.value, (str, bytes))
            and len(node.args) == 1
            and not node.keywords
        ):
            return ast.copy_location(
                ast.Call(func=ast.Name(id="sx_join", ctx=ast.Load()), args=[f.value, node.args[0]], keywords=[]),
                node,
            )
        return node

    def visit_JoinedStr(self, node):
        self.generic_visit(node)
        if "fstr" not in self.flags:
            return node
        parts = []
        for v in node.values:
            if isinstance(v, ast.Constant):
                parts.append(v)
            else:  # FormattedValue
                spec = v.format_spec if v.format_spec is not None else ast.Constant(value="")
                parts.append(
                    ast.Tuple(
                        elts=[v.value, ast.Constant(value=v.conversion), spec],
                        ctx=ast.Load(),
                    )
                )
        return ast.copy_location(
            ast.Call(func=ast.Name(id="sx_fstr", ctx=ast.Load()), args=parts, keywords=[]), node
        )

    def visit_Dict(self, node):
        self.generic_visit(node)
        if "containers" not in self.flags or any(k is None for k in node.keys):
            return node
        pairs = [ast.Tuple(elts=[k, v], ctx=ast.Load()) for k, v in zip(node.keys, node.values)]
        return ast.copy_location(
            ast.Call(
                func=ast.Name(id="sx_mkdict", ctx=ast.Load()),
                args=[ast.List(elts=pairs, ctx=ast.Load())],
                keywords=[],
            ),
            node,
        )

    def visit_DictComp(self, node):
        self.generic_visit(node)
        if "containers" not in self.flags:
            return node
        lc = ast.ListComp(elt=ast.Tuple(elts=[node.key, node.value], ctx=ast.Load()), generators=node.generators)
        return ast.copy_location(
            ast.Call(func=ast.Name(id="sx_mkdict", ctx=ast.Load()), args=[lc], keywords=[]), node
        )

    def visit_Set(self, node):
        self.generic_visit(node)
        if "containers" not in self.flags:
            return node
        return ast.copy_location(
            ast.Call(
                func=ast.Name(id="sx_mkset", ctx=ast.Load()),
                args=[ast.List(elts=node.elts, ctx=ast.Load())],
                keywords=[],
            ),
            node,
        )

    def visit_SetComp(self, node):
        self.generic_visit(node)
        if "containers" not in self.flags:
            return node
        lc = ast.ListComp(elt=node.elt, generators=node.generators)
        return ast.copy_location(
            ast.Call(func=ast.Name(id="sx_mkset", ctx=ast.Load()), args=[lc], keywords=[]), node
        )

    def visit_BinOp(self, node):
        self.generic_visit(node)
        if (
            "percent" in self.flags
            and isinstance(node.op, ast.Mod)
            and isinstance(node.left, ast.Constant)
            and isinstance(node.left.value, str)
        ):
            return ast.copy_location(
                ast.Call(func=ast.Name(id="sx_percent", ctx=ast.Load()), args=[node.left, node.right], keywords=[]),
                node,
            )
        return node


class SxLoader(importlib.abc.Loader):
    def __init__(self, fullname, path):
        self.fullname = fullname
        self.path = path

    def create_module(self, spec):
        return None

    def get_filename(self, fullname=None):
        return self.path

    def get_source(self, fullname=None):
        with open(self.path, encoding="utf8") as f:
            return f.read()

    def exec_module(self, module):
        src = self.get_source()
        LOADED[self.fullname] = hashlib.sha1(src.encode()).hexdigest()
        prof = _PROFILES.get(self.fullname, _DEFAULT)
        tree = ast.parse(src, self.path)
        if prof is not None and prof.rewrite:
            tree = _Rewriter(prof.rewrite).visit(tree)
            ast.fix_missing_locations(tree)
        code = compile(tree, self.path, "exec", dont_inherit=True)
        ns = module.__dict__
        if prof is not None:
            from . import shims

            helpers = shims.rewrite_helpers()
            for k, v in helpers.items():
                ns[k] = v
            for k, v in prof.names.items():
                ns[k] = v
        exec(code, ns)
        if prof is not None:
            for k, v in prof.names.items():
                ns[k] = v
            if prof.post:
                prof.post(module)


class SxFinder(importlib.abc.MetaPathFinder):
    def find_spec(self, fullname, path=None, target=None):
        if fullname != "aiortc" and not fullname.startswith("aiortc."):
            return None
        rel = fullname.replace(".", "/")
        pkg = os.path.join(SRC, rel, "__init__.py")
        mod = os.path.join(SRC, rel + ".py")
        if os.path.isfile(pkg):
            return importlib.util.spec_from_file_location(
                fullname, pkg, loader=SxLoader(fullname, pkg), submodule_search_locations=[os.path.dirname(pkg)]
            )
        if os.path.isfile(mod):
            return importlib.util.spec_from_file_location(fullname, mod, loader=SxLoader(fullname, mod))
        return None


_installed = False


def install(profiles: dict[str, Profile], default: Profile | None = None):
    """Install the import hook.  Must precede the first import of aiortc."""
    global _installed, _DEFAULT
    if "aiortc" in sys.modules and not _installed:
        raise RuntimeError("aiortc imported before sx.loader.install()")
    _PROFILES.update(profiles)
    if default is not None:
        _DEFAULT = default
    if not _installed:
        sys.meta_path.insert(0, SxFinder())
        _installed = True


def installed() -> bool:
    return _installed


def functions_sha(qualnames):
    """sha1 of the source text of the listed functions as loaded (for evidence)."""
    import inspect

    out = {}
    for qn in qualnames:
        modname, _, attr = qn.partition(":")
        try:
            obj = sys.modules[modname]
            for part in attr.split("."):
                obj = getattr(obj, part)
            obj = getattr(obj, "__func__", obj)
            obj = getattr(obj, "fget", obj)
            src = inspect.getsource(obj)
            out[qn] = hashlib.sha1(src.encode()).hexdigest()[:12]
        except Exception as e:  # noqa: BLE001
            out[qn] = "unavailable: %s" % type(e).__name__
    return out
