"""Check runner: `python -m sx.runner <property> --tier quick|thorough`.

Exit codes: 0 all obligations discharged; 1 confirmed violation (VIOLATION line printed);
2 inconclusive; 3 harness / engine error.
"""
from __future__ import annotations

import argparse
import concurrent.futures as cf
import hashlib
import importlib
import json
import multiprocessing
import os
import subprocess
import sys
import time
from collections import deque

VERIF = os.path.dirname(os.path.dirname(os.path.abspath(__file__)))
HARNESS_MODULES = {}  # filled from harness/__init__.py registry


def _load_registry():
    from harness import REGISTRY

    return REGISTRY


def _task(args):
    modname, hname, params, prefix, opts, budget = args
    from . import core

    mod = importlib.import_module(modname)
    h = mod.HARNESSES[hname]
    res = core.explore(h.fn, params, prefix=prefix, opts=opts, budget_s=budget)
    for v in res.violations.values():
        v["params"] = params
    for v in res.known_hits.values():
        v["params"] = params
    for s in res.samples:
        s["params"] = params
    if os.environ.get("SX_DEBUG"):
        print("JOB %s %s wall=%.1f solver=%.1f paths=%d left=%d" % (hname, json.dumps(params), res.wall_s, res.stats.time_s, res.paths, len(res.leftover)), file=sys.stderr, flush=True)
    return hname, params, res


class Harness:
    def __init__(self, name, fn, jobs, style="", bounds="", encoded=(), stubs=(), outside=(), opts=None, twin=None):
        self.name = name
        self.fn = fn
        self.jobs = jobs  # callable(tier) -> list[dict]
        self.style = style
        self.bounds = bounds
        self.encoded = list(encoded)
        self.stubs = list(stubs)
        self.outside = list(outside)
        self.opts = opts or {}
        self.twin = twin  # label that must be reachable ("assert False" twin)


def load_known(prop):
    p = os.path.join(VERIF, "known_findings.json")
    if not os.path.exists(p):
        return []
    with open(p) as f:
        data = json.load(f)
    return [k for k in data.get("findings", []) if k.get("property") == prop]


def _plain_env():
    env = dict(os.environ)
    pp = [os.path.join(VERIF, ".deps"), VERIF]
    if os.environ.get("SX_SRC"):
        pp.insert(0, os.environ["SX_SRC"])
    env["PYTHONPATH"] = os.pathsep.join(pp)
    env.pop("SX_WORKER", None)
    return env


def run_plain(batch, timeout=600):
    """Run concrete replays in a fresh, un-instrumented interpreter.  Returns list of results."""
    scratch = os.path.join(VERIF, ".scratch")
    os.makedirs(scratch, exist_ok=True)
    tag = hashlib.sha1(json.dumps(batch, sort_keys=True, default=str).encode()).hexdigest()[:12]
    inp = os.path.join(scratch, "batch-%s-%d.json" % (tag, os.getpid()))
    with open(inp, "w") as f:
        json.dump(batch, f)
    try:
        p = subprocess.run(
            [sys.executable, "-m", "sx.replay", "--batch", inp],
            env=_plain_env(),
            cwd=VERIF,
            capture_output=True,
            text=True,
            timeout=timeout,
        )
        if p.returncode != 0:
            raise RuntimeError("plain replay failed: rc=%d\n%s\n%s" % (p.returncode, p.stdout[-2000:], p.stderr[-4000:]))
        out = json.loads(p.stdout.strip().splitlines()[-1])
        return out
    finally:
        try:
            os.unlink(inp)
        except OSError:
            pass


def main(argv=None):
    ap = argparse.ArgumentParser()
    ap.add_argument("prop")
    ap.add_argument("--tier", default=os.environ.get("VERIF_TIER", "quick"))
    ap.add_argument("--only", default=None, help="comma separated harness names")
    ap.add_argument("--jobs", type=int, default=min(16, os.cpu_count() or 1))
    ap.add_argument("--no-evidence", action="store_true")
    ap.add_argument("-v", action="store_true")
    args = ap.parse_args(argv)
    seed = int(os.environ.get("VERIF_SEED", "0") or 0)
    tier = args.tier if args.tier in ("quick", "thorough") else "quick"
    prop = args.prop
    t0 = time.time()

    from . import conv, loader

    reg = _load_registry()
    if prop not in reg:
        print("unknown property", prop)
        return 3
    modname = reg[prop]
    # profiles are declared in a side file so that they can be installed before aiortc is imported
    from harness import profiles as stdprof

    profs = stdprof.for_property(prop)
    loader.install(profs["modules"], default=profs.get("default"))
    mod = importlib.import_module(modname)
    harnesses = mod.HARNESSES
    if args.only:
        names = args.only.split(",")
        harnesses = {k: v for k, v in harnesses.items() if k in names}
    known = load_known(prop)

    # ------------------------------------------------------------------ build tasks
    import random

    rnd = random.Random(seed)
    per_h = {}
    tasks = deque()
    for hname, h in harnesses.items():
        jobs = h.jobs(tier)
        rnd.shuffle(jobs)
        if tier == "thorough":
            # anytime order: the quick tier's jobs first, so that thorough always covers quick
            qj = [json.dumps(j, sort_keys=True, default=str) for j in h.jobs("quick")]
            jobs.sort(key=lambda j: json.dumps(j, sort_keys=True, default=str) not in qj)
        per_h[hname] = {"jobs": len(jobs), "res": None, "params_done": 0}
        for params in jobs:
            opts = dict(h.opts.get(tier, h.opts.get("quick", {})) if "quick" in h.opts or "thorough" in h.opts else h.opts)
            opts["known"] = [k for k in known if k.get("status") == "known" and k.get("harness") in (None, hname)]
            opts.setdefault("query_timeout_ms", 30000 if tier == "quick" else 120000)
            opts["seed"] = seed
            opts.setdefault("lia", "fallback")
            if os.environ.get("SX_LIA"):  # debugging: 0 | first | fallback
                opts["lia"] = {"0": False}.get(os.environ["SX_LIA"], os.environ["SX_LIA"])
            tasks.append((modname, hname, params, [], opts, opts.get("slice_s", 5.0)))
    dl = mod.DEADLINE.get(tier, 600) if hasattr(mod, "DEADLINE") else 600
    if tier == "quick":
        dl = max(dl, 900)  # strict tier: several times the idle-machine wall time, so that load does not turn it INCONCLUSIVE
    deadline = t0 + float(os.environ.get("SX_DEADLINE_S", dl))

    from .core import Result

    results = {hname: Result() for hname in harnesses}
    budget_exhausted = False
    # per job (harness, params): number of queued/running path-prefix tasks; 0 = explored completely
    def _jk(t):
        return (t[1], json.dumps(t[2], sort_keys=True, default=str))

    open_tasks = {}
    for t in tasks:
        open_tasks[_jk(t)] = open_tasks.get(_jk(t), 0) + 1
    jobs_total = len(open_tasks)
    ctx = multiprocessing.get_context("fork")
    nworkers = max(1, args.jobs)
    from concurrent.futures.process import BrokenProcessPool

    pool_restarts = 0
    pool_errors = []
    api_retries = {}

    def _tk(t):
        return (t[1], json.dumps(t[2], sort_keys=True, default=str), repr([(e[0], e[1]) for e in t[3]]))

    ex = cf.ProcessPoolExecutor(max_workers=nworkers, mp_context=ctx)
    try:
        inflight = {}
        while tasks or inflight:
            while tasks and len(inflight) < nworkers * 2:
                t = tasks.popleft()
                inflight[ex.submit(_task, t)] = t
            done, _ = cf.wait(list(inflight), timeout=1.0, return_when=cf.FIRST_COMPLETED)
            broken = False
            for fut in done:
                t = inflight.pop(fut)
                try:
                    hname, params, res = fut.result()
                except BrokenProcessPool:
                    # a worker process died (e.g. a crash inside the solver library): every
                    # in-flight task is lost with it; start a new pool and run them again
                    broken = True
                    tasks.appendleft(t)
                    continue
                if any("solver API error" in str(e) for e in res.errors) and api_retries.get(_tk(t), 0) < 2:
                    # the solver library reported an internal inconsistency (seen only together with
                    # worker crashes in the harnesses that run real event loops and their helper
                    # threads): nothing that worker computed in this slice is trusted; run the
                    # slice again in a fresh pool
                    api_retries[_tk(t)] = api_retries.get(_tk(t), 0) + 1
                    broken = True
                    tasks.appendleft(t)
                    continue
                left = res.leftover
                res.leftover = []
                results[hname].merge(res)
                open_tasks[_jk(t)] += len(left) - 1
                for pre in left:
                    tasks.append((t[0], t[1], t[2], pre, t[4], t[5]))
            if broken:
                pool_restarts += 1
                for fut, t in list(inflight.items()):
                    tasks.appendleft(t)
                inflight.clear()
                ex.shutdown(wait=False, cancel_futures=True)
                if pool_restarts > 5:
                    pool_errors.append("worker processes died %d times (solver library crash?); giving up" % pool_restarts)
                    tasks.clear()
                    break
                ex = cf.ProcessPoolExecutor(max_workers=nworkers, mp_context=ctx)
                continue
            if time.time() > deadline and (tasks or inflight):
                budget_exhausted = True
                for fut in inflight:
                    fut.cancel()
                tasks.clear()
                # let running ones finish their slice
                for fut in list(inflight):
                    try:
                        hname, params, res = fut.result(timeout=30)
                        res.leftover = []
                        results[hname].merge(res)
                    except Exception:  # noqa: BLE001
                        pass
                inflight.clear()
                break
    finally:
        ex.shutdown(wait=False, cancel_futures=True)

    # ------------------------------------------------------------------ triage
    rc = 0
    lines = []
    total = Result()
    engine_errors = list(pool_errors)
    inconclusive = []
    all_viol = []
    all_known = []
    for hname, res in results.items():
        total.merge(res)
        if res.errors:
            engine_errors.extend("%s: %s" % (hname, e) for e in res.errors[:3])
        for v in res.violations.values():
            all_viol.append((hname, v))
        for key, v in res.known_hits.items():
            all_known.append((hname, key, v))
        if res.inconclusive:
            inconclusive.append("%s: %s" % (hname, res.inconclusive[0]))
        h = harnesses[hname]
        some_job_done = any(n == 0 for (hn, _), n in open_tasks.items() if hn == hname)
        if h.twin and ("check:" + h.twin) not in res.reached and h.twin not in res.reached and (some_job_done or not budget_exhausted):
            engine_errors.append("%s: reach marker %s never hit (vacuous harness)" % (hname, h.twin))
    incomplete_jobs = sorted(k for k, n in open_tasks.items() if n > 0)
    if budget_exhausted:
        if tier == "thorough":
            # the thorough tier is an anytime exploration: what was not reached within the budget is
            # reported as not covered (evidence: incomplete_jobs), it is neither claimed nor an alarm
            lines.append(
                "NOTE: time budget exhausted: %d of %d jobs explored completely; the remainder is listed in evidence as not covered"
                % (jobs_total - len(incomplete_jobs), jobs_total)
            )
        else:
            inconclusive.append("time budget exhausted before all paths were explored")

    # replay violations and known findings on the plain code
    os.makedirs(os.path.join(VERIF, "replays"), exist_ok=True)
    batch = []
    index = []
    for hname, v in all_viol:
        batch.append(_replay_item(modname, hname, v))
        index.append(("viol", hname, v))
    for hname, key, v in all_known:
        batch.append(_replay_item(modname, hname, v))
        index.append(("known", hname, key, v))
    # sampled completed paths for proxy cross-validation
    nval = 0
    for hname, res in results.items():
        for s in res.samples[: (6 if tier == "quick" else 20)]:
            item = {
                "module": modname,
                "harness": hname,
                "params": s.get("params", None),
                "inputs": conv.jsonable(s["inputs"]),
                "obs": conv.jsonable(s["obs"]),
                "kind": "sample",
            }
            batch.append(item)
            index.append(("sample", hname, s))
    confirmed = []
    cut_replayed_ok = []
    validated = 0
    disagreements = []
    if batch:
        try:
            out = run_plain(batch)
        except Exception as e:  # noqa: BLE001
            engine_errors.append("plain replay subprocess failed: %s" % str(e)[:2000])
            out = [None] * len(batch)
        for idx, r in zip(index, out):
            if r is None:
                continue
            if idx[0] == "viol":
                _, hname, v = idx
                if v["label"] in r["violations"]:
                    path = _write_replay(prop, modname, hname, v)
                    confirmed.append((hname, v, path))
                elif v["label"].startswith("hang:") and r["outcome"] == "done" and not r["violations"]:
                    # a path cut by the unwinding budget whose concrete replay returns in time
                    cut_replayed_ok.append((hname, v))
                else:
                    engine_errors.append(
                        "%s: counterexample for %r did not reproduce on the plain code (got %r, outcome %s %s)"
                        % (hname, v["label"], r["violations"], r["outcome"], (r.get("info") or "")[:300])
                    )
            elif idx[0] == "known":
                _, hname, key, v = idx
                if key in r["known_hits"] or v["label"] in r["violations"]:
                    k = [k for k in known if k["key"] == key][0]
                    lines.append("KNOWN-FINDING: property=%s %s [%s]" % (prop, k.get("what", key), key))
                else:
                    engine_errors.append("%s: known finding %s did not reproduce concretely" % (hname, key))
            else:
                _, hname, s = idx
                if r["outcome"] != "done" or r["violations"]:
                    disagreements.append("%s: sample path violates/aborts concretely: %r" % (hname, r))
                elif r["obs"] != conv.jsonable(s["obs"]):
                    disagreements.append(
                        "%s: observables differ: sym=%r conc=%r inputs=%r" % (hname, conv.jsonable(s["obs"]), r["obs"], conv.jsonable(s["inputs"]))
                    )
                else:
                    validated += 1
    if disagreements:
        engine_errors.extend(disagreements[:3])
    for k in known:
        if k.get("status") == "known" and not any(k["key"] == kk for _, kk, _ in all_known):
            if not args.only:
                lines.append("NOTE: known finding %s was not re-confirmed by this run" % k["key"])

    if cut_replayed_ok:
        lines.append(
            "NOTE: %d path(s) cut by the unwinding budget (%s); their concrete replays returned within the watchdog limit - the rest of those paths is outside the claim"
            % (total.cut, ", ".join(sorted({h for h, _ in cut_replayed_ok})))
        )
    for hname, v, path in confirmed:
        lines.append("VIOLATION property=%s replay=%s" % (prop, path))
        lines.append("  harness=%s label=%s %s" % (hname, v["label"], v.get("detail", "")))
    if confirmed:
        rc = 1
    elif engine_errors:
        rc = 3
    elif inconclusive:
        rc = 2
    if pool_restarts:
        lines.append("NOTE: the worker pool was restarted %d time(s) after a worker process died; the lost tasks were run again" % pool_restarts)
    for e in engine_errors:
        lines.append("ENGINE-ERROR property=%s %s" % (prop, e))
    for e in inconclusive:
        lines.append("INCONCLUSIVE property=%s %s" % (prop, e))

    wall = time.time() - t0
    # ------------------------------------------------------------------ evidence
    if not args.no_evidence and not args.only:
        ev = _evidence(prop, tier, seed, mod, harnesses, results, total, validated, confirmed, all_known, inconclusive, engine_errors, budget_exhausted, wall, per_h)
        ev["coverage"]["jobs_total"] = jobs_total
        ev["coverage"]["jobs_explored_completely"] = jobs_total - len(incomplete_jobs)
        ev["coverage"]["incomplete_jobs"] = ["%s %s" % k for k in incomplete_jobs[:200]]
        if incomplete_jobs:
            ev["coverage"]["exhaustive"] = False
        os.makedirs(os.path.join(VERIF, "evidence"), exist_ok=True)
        with open(os.path.join(VERIF, "evidence", prop + ".json"), "w") as f:
            json.dump(ev, f, indent=1, sort_keys=True, default=str)
    for ln in lines:
        print(ln)
    print(
        "%s tier=%s paths=%d cut=%d aborted=%d decisions=%d queries=%d solver=%.1fs validated=%d wall=%.1fs rc=%d"
        % (prop, tier, total.paths, total.cut, total.aborted, total.decisions, total.stats.queries, total.stats.time_s, validated, wall, rc)
    )
    if args.v:
        for hname, res in results.items():
            print("  %-28s paths=%d cut=%d abort=%d depth=%d viol=%s known=%s" % (hname, res.paths, res.cut, res.aborted, res.max_depth, list(res.violations), list(res.known_hits)))
    return rc


def _exists(modname):
    try:
        return importlib.util.find_spec(modname) is not None
    except (ImportError, ValueError):
        return False


def _replay_item(modname, hname, v):
    from . import conv

    return {
        "module": modname,
        "harness": hname,
        "params": v.get("params"),
        "inputs": conv.jsonable(v["inputs"]),
        "label": v["label"],
        "kind": "violation",
    }


def _write_replay(prop, modname, hname, v):
    from . import conv

    item = {
        "property": prop,
        "module": modname,
        "harness": hname,
        "params": v.get("params"),
        "inputs": conv.jsonable(v["inputs"]),
        "label": v["label"],
        "detail": v.get("detail", ""),
    }
    tag = hashlib.sha1(json.dumps(item, sort_keys=True).encode()).hexdigest()[:10]
    path = os.path.join(VERIF, "replays", "%s-%s-%s.json" % (prop, hname, tag))
    with open(path, "w") as f:
        json.dump(item, f, indent=1)
    return path


def _evidence(prop, tier, seed, mod, harnesses, results, total, validated, confirmed, all_known, inconclusive, engine_errors, budget_exhausted, wall, per_h):
    import z3

    from . import conv, loader

    encoded = []
    for h in harnesses.values():
        for q in h.encoded:
            if q not in encoded:
                encoded.append(q)
    samples = []
    for hname, res in results.items():
        for s in res.samples[:2]:
            samples.append({"harness": hname, "params": s.get("params"), "inputs": conv.jsonable(s["inputs"])})
    obligations = {}
    for hname, res in results.items():
        labels = sorted(x[6:] for x in res.reached if x.startswith("check:"))
        obligations[hname] = {
            "style": harnesses[hname].style,
            "bounds": harnesses[hname].bounds,
            "jobs": per_h[hname]["jobs"],
            "paths_completed": res.paths,
            "paths_cut_by_unwinding": res.cut,
            "cut_reasons": res.cut_reasons,
            "paths_infeasible": res.aborted,
            "max_decisions_on_a_path": res.max_depth,
            "assertion_labels_reached": labels,
            "violated_labels": sorted(res.violations),
            "known_findings_confirmed": sorted(res.known_hits),
            "solver": res.stats.as_dict(),
            "notes": sorted(res.notes),
        }
    assumptions = set()
    stubs = []
    outside = []
    for hname, h in harnesses.items():
        assumptions |= {"%s: %s" % (hname, a) for a in results[hname].assumes}
        for s in h.stubs:
            if s not in stubs:
                stubs.append(s)
        for s in h.outside:
            if s not in outside:
                outside.append(s)
    exhaustive = not (budget_exhausted or total.cut or inconclusive or engine_errors)
    ev = {
        "property_id": prop,
        "tier": tier,
        "seed": seed,
        "level": "model_checking",
        "coverage": {
            "states": max(total.paths, 0),
            "transitions": max(total.decisions, 0),
            "traces_validated_against_impl": validated,
            "samples": samples or [{"note": "no completed path"}],
            "exhaustive": bool(exhaustive),
            "explanation": "bounded symbolic execution of the real source; states = feasible paths completed, transitions = solver-decided branch decisions",
            "harnesses": obligations,
            "obligations": sum(len(o["assertion_labels_reached"]) for o in obligations.values()),
            "discharged": sum(len(o["assertion_labels_reached"]) - len(o["violated_labels"]) for o in obligations.values())
            if not (inconclusive or engine_errors)
            else 0,
            "functions_encoded": loader.functions_sha(encoded),
            "modules_loaded_sha1": {k: v[:12] for k, v in sorted(loader.LOADED.items()) if k in getattr(mod, "MODULES", [])},
            "stubs": stubs,
            "outside_claim": outside,
            "solver": dict(total.stats.as_dict(), name="z3", version=z3.get_version_string()),
            "float_conversion_sites": sorted(map(str, total.float_sites)),
            "inconclusive": inconclusive,
            "engine_errors": engine_errors,
            "known_findings_confirmed": sorted({k for _, k, _ in all_known}),
        },
        "assumptions": sorted(assumptions) + ["stub: " + s for s in stubs],
        "wall_s": round(wall, 2),
        "violations": len(confirmed),
    }
    return ev


if __name__ == "__main__":
    sys.exit(main())
