"""sx - bounded symbolic execution of the real aiortc source with z3.

See /verif/DESIGN.md section 2.  Public surface used by harnesses:

    from sx import api as sx
"""
