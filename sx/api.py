"""Facade used by harnesses: works in symbolic and in concrete (replay) mode alike."""
from __future__ import annotations

import builtins

import z3

from . import core
from .bytes_ import SymBytes, bytes_eq, mkbytes  # noqa: F401
from .containers import SymDict, SymSet  # noqa: F401
from .core import PathAbort, PathCut, Unsupported, active, cur, timelimit  # noqa: F401
from .ints import SymBool, SymInt, bnot, concretize_int, ite  # noqa: F401


def _b(x):
    if isinstance(x, SymBool):
        return x.t
    return z3.BoolVal(builtins.bool(x))


def _bi(xs):
    """Integer-sort mirrors of the operands, or None if one of them has none."""
    out = []
    for x in xs:
        if isinstance(x, SymBool):
            if x.i is None:
                return None
            out.append(x.i)
        else:
            out.append(z3.BoolVal(builtins.bool(x)))
    return out


def And(*xs):
    """Non-forking conjunction."""
    if not any(isinstance(x, SymBool) for x in xs):
        return all(xs)
    m = _bi(xs)
    return SymBool.of(z3.And(*[_b(x) for x in xs]), None if m is None else z3.And(*m))


def Or(*xs):
    if not any(isinstance(x, SymBool) for x in xs):
        return any(xs)
    m = _bi(xs)
    return SymBool.of(z3.Or(*[_b(x) for x in xs]), None if m is None else z3.Or(*m))


def Not(x):
    return bnot(x)


def Implies(a, b):
    return Or(Not(a), b)


def Iff(a, b):
    if isinstance(a, SymBool) or isinstance(b, SymBool):
        m = _bi([a, b])
        return SymBool.of(_b(a) == _b(b), None if m is None else m[0] == m[1])
    return builtins.bool(a) == builtins.bool(b)


def len_(x):
    return builtins.len(x)


def eq(a, b):
    """Structural, non-forking equality of (nested) values -> bool | SymBool."""
    if isinstance(a, (list, tuple)) and isinstance(b, (list, tuple)):
        if len(a) != len(b):
            return False
        return And(*[eq(x, y) for x, y in zip(a, b)])
    if isinstance(a, (SymBytes,)) or isinstance(b, (SymBytes,)):
        return bytes_eq(a, b)
    if type(a).__name__ == "SymStr":
        return a == b
    if type(b).__name__ == "SymStr":
        return b == a
    if isinstance(b, (SymInt, SymBool)) and not isinstance(a, (SymInt, SymBool)):
        return b == a
    return a == b


def to_bytes(x):
    """bytes(x) that also works when __bytes__ returns symbolic bytes."""
    from .shims import sx_bytes

    return sx_bytes(x)


def deep_eq(a, b):
    """Non-forking structural equality incl. dataclass instances and objects with __dict__."""
    import dataclasses

    if dataclasses.is_dataclass(a) and not isinstance(a, type):
        if type(a) is not type(b):
            return False
        return And(*[deep_eq(getattr(a, f.name), getattr(b, f.name)) for f in dataclasses.fields(a)])
    if isinstance(a, (list, tuple)):
        if not isinstance(b, (list, tuple)) or len(a) != len(b):
            return False
        return And(*[deep_eq(x, y) for x, y in zip(a, b)])
    if a is None or b is None:
        return a is b
    return eq(a, b)


def run(coro):
    """Drive a coroutine that must not suspend."""
    try:
        coro.send(None)
    except StopIteration as e:
        return e.value
    coro.close()
    raise Unsupported("coroutine suspended")


def u(x, bits):
    """x mod 2**bits (works for int and SymInt)."""
    return x & ((1 << bits) - 1)
