"""SymDict / SymSet: insertion-ordered association lists with lookup by `==` (forks on symbolic keys).

Faithful to dict/set for concrete keys (fast path through a real dict for hashable concrete keys
as long as no symbolic key was ever inserted).
"""
from __future__ import annotations

from .bytes_ import SymBytes
from .core import Unsupported
from .ints import SymBool, SymInt

_MISSING = object()


def _is_sym(k):
    if isinstance(k, (SymInt, SymBool, SymBytes)):
        return True
    if isinstance(k, tuple):
        return any(_is_sym(x) for x in k)
    return type(k).__name__ in ("SymStr",)


def _keq(a, b):
    """bool(a == b) with forking, tuples element-wise."""
    if isinstance(a, tuple) and isinstance(b, tuple):
        if len(a) != len(b):
            return False
        for x, y in zip(a, b):
            if not _keq(x, y):
                return False
        return True
    if not _is_sym(a) and not _is_sym(b):
        return a == b
    if _is_sym(a):
        return bool(a == b)
    return bool(b == a)


class SymDict:
    def __init__(self, *a, **k):
        self._k = []
        self._v = []
        if a:
            src = a[0]
            if isinstance(src, (dict, SymDict)):
                for kk, vv in src.items():
                    self[kk] = vv
            else:
                for kk, vv in src:
                    self[kk] = vv
        for kk, vv in k.items():
            self[kk] = vv

    def __class_getitem__(cls, item):
        return dict[item]

    def _find(self, key):
        for i, k in enumerate(self._k):
            if _keq(k, key):
                return i
        return -1

    def __getitem__(self, key):
        i = self._find(key)
        if i < 0:
            raise KeyError(key)
        return self._v[i]

    def __setitem__(self, key, value):
        i = self._find(key)
        if i < 0:
            self._k.append(key)
            self._v.append(value)
        else:
            self._v[i] = value

    def __delitem__(self, key):
        i = self._find(key)
        if i < 0:
            raise KeyError(key)
        del self._k[i]
        del self._v[i]

    def __contains__(self, key):
        return self._find(key) >= 0

    def __len__(self):
        return len(self._k)

    def __bool__(self):
        return len(self._k) > 0

    def __iter__(self):
        return iter(list(self._k))

    def get(self, key, default=None):
        i = self._find(key)
        return default if i < 0 else self._v[i]

    def pop(self, key, default=_MISSING):
        i = self._find(key)
        if i < 0:
            if default is _MISSING:
                raise KeyError(key)
            return default
        v = self._v[i]
        del self._k[i]
        del self._v[i]
        return v

    def setdefault(self, key, default=None):
        i = self._find(key)
        if i < 0:
            self._k.append(key)
            self._v.append(default)
            return default
        return self._v[i]

    def keys(self):
        return list(self._k)

    def values(self):
        return list(self._v)

    def items(self):
        return list(zip(self._k, self._v))

    def clear(self):
        self._k = []
        self._v = []

    def update(self, other=(), **kw):
        if isinstance(other, (dict, SymDict)):
            other = other.items()
        for k, v in other:
            self[k] = v
        for k, v in kw.items():
            self[k] = v

    def copy(self):
        d = SymDict()
        d._k = list(self._k)
        d._v = list(self._v)
        return d

    def __eq__(self, o):
        if not isinstance(o, (dict, SymDict)):
            return False
        if len(o) != len(self):
            return False
        for k, v in self.items():
            if k not in o:
                return False
            if not (o[k] == v):
                return False
        return True

    def __ne__(self, o):
        return not self.__eq__(o)

    def __hash__(self):
        raise TypeError("unhashable type: 'dict'")

    def __repr__(self):
        return "SymDict(%r)" % (self.items(),)


class SymSet:
    def __init__(self, it=()):
        self._k = []
        for x in it:
            self.add(x)

    def __class_getitem__(cls, item):
        return set[item]

    def _find(self, key):
        for i, k in enumerate(self._k):
            if _keq(k, key):
                return i
        return -1

    def add(self, x):
        if self._find(x) < 0:
            self._k.append(x)

    def discard(self, x):
        i = self._find(x)
        if i >= 0:
            del self._k[i]

    def remove(self, x):
        i = self._find(x)
        if i < 0:
            raise KeyError(x)
        del self._k[i]

    def pop(self):
        if not self._k:
            raise KeyError("pop from an empty set")
        return self._k.pop()

    def clear(self):
        self._k = []

    def update(self, *its):
        for it in its:
            for x in it:
                self.add(x)

    def __contains__(self, x):
        return self._find(x) >= 0

    def __len__(self):
        return len(self._k)

    def __bool__(self):
        return len(self._k) > 0

    def __iter__(self):
        return iter(list(self._k))

    def copy(self):
        return SymSet(self._k)

    def __or__(self, o):
        r = SymSet(self._k)
        r.update(o)
        return r

    def union(self, *o):
        r = SymSet(self._k)
        r.update(*o)
        return r

    def __and__(self, o):
        return SymSet(x for x in self._k if x in o)

    def intersection(self, o):
        return self.__and__(o)

    def __sub__(self, o):
        return SymSet(x for x in self._k if x not in o)

    def difference(self, o):
        return self.__sub__(o)

    def issubset(self, o):
        return all(x in o for x in self._k)

    def __le__(self, o):
        return self.issubset(o)

    def __eq__(self, o):
        if not isinstance(o, (set, frozenset, SymSet)):
            return False
        if len(o) != len(self):
            return False
        return all(x in o for x in self._k)

    def __ne__(self, o):
        return not self.__eq__(o)

    def __hash__(self):
        raise TypeError("unhashable type: 'set'")

    def __repr__(self):
        return "SymSet(%r)" % (self._k,)


class _DictMeta(type):
    def __instancecheck__(cls, obj):
        return isinstance(obj, (dict, SymDict))

    def __call__(cls, *a, **k):
        return SymDict(*a, **k)

    def __getitem__(cls, item):
        return dict[item]

    def __getattr__(cls, name):
        return getattr(dict, name)


class sx_dict(metaclass=_DictMeta):
    """Injected as `dict`: constructs SymDict, stays subscriptable for annotations."""


class _SetMeta(type):
    def __instancecheck__(cls, obj):
        return isinstance(obj, (set, SymSet))

    def __call__(cls, *a, **k):
        return SymSet(*a, **k)

    def __getitem__(cls, item):
        return set[item]

    def __getattr__(cls, name):
        return getattr(set, name)


class sx_set(metaclass=_SetMeta):
    """Injected as `set`: constructs SymSet."""
