"""./check selftest [--seeds] : guards for the checking machinery itself (DESIGN 5.5).

1. proxy agreement  - every SymInt operation, on both encodings (bit-vector term and integer
                      mirror), agrees with CPython for every operand pair of a small exhaustive grid
                      (the solver is asked for the value of the result term with the inputs pinned);
2. struct agreement - sx_pack / sx_unpack against struct for every format character in use;
3. solver agreement - a handful of representative verdicts (serial-number lemmas, the AIMD rounding
                      band) are exported as SMT-LIB and re-decided by the other solver binaries on
                      PATH (z3 4.8 `/usr/bin/z3`, `cvc5`); a differing verdict is an error, a timeout
                      is reported;
4. --seeds          - every seeded change under /verif/seeded must be reported (exit 1) by the quick
                      check of its property when applied to a scratch worktree (slow: minutes each).
Exit 0 = all agree, 3 = an engine problem.
"""
from __future__ import annotations

import itertools
import json
import operator
import os
import shutil
import struct
import subprocess
import sys
import tempfile

import z3

from . import core
from .ints import SymBool, SymInt, ite

HERE = os.path.dirname(os.path.dirname(os.path.abspath(__file__)))
FAIL = []


def _ctx():
    ctx = core.Ctx("sym", opts={"lia": "first"})
    core._CUR = ctx
    return ctx


def _value(ctx, r, pins_bv, pins_int):
    """(value under the bit-vector encoding, value under the integer mirror or None)."""
    if isinstance(r, (bool, int)) and not isinstance(r, (SymInt, SymBool)):
        return r, r
    s = ctx.solver
    s.push()
    s.add(*pins_bv)
    assert s.check() == z3.sat
    m = s.model()
    bv = m.eval(r.t, model_completion=True)
    vb = z3.is_true(bv) if isinstance(r, SymBool) else bv.as_signed_long()
    s.pop()
    vi = None
    if r.i is not None:
        ls = ctx.lia_solver
        ls.push()
        ls.add(*pins_int)
        assert ls.check() == z3.sat
        iv = ls.model().eval(r.i, model_completion=True)
        vi = z3.is_true(iv) if isinstance(r, SymBool) else iv.as_long()
        ls.pop()
    return vb, vi


BINOPS = [
    ("add", operator.add, range(-9, 10), range(-9, 10)),
    ("sub", operator.sub, range(-9, 10), range(-9, 10)),
    ("mul", operator.mul, range(-9, 10), range(-9, 10)),
    ("floordiv+", operator.floordiv, range(-20, 21), range(1, 8)),
    ("floordiv-", operator.floordiv, range(-20, 21), range(-7, 0)),
    ("mod+", operator.mod, range(-20, 21), range(1, 8)),
    ("mod-", operator.mod, range(-20, 21), range(-7, 0)),
    ("and", operator.and_, range(-9, 10), range(-9, 10)),
    ("or", operator.or_, range(-9, 10), range(-9, 10)),
    ("xor", operator.xor, range(-9, 10), range(-9, 10)),
    ("lshift", operator.lshift, range(-9, 10), range(0, 6)),
    ("rshift", operator.rshift, range(-40, 41), range(0, 6)),
    ("lt", operator.lt, range(-5, 6), range(-5, 6)),
    ("le", operator.le, range(-5, 6), range(-5, 6)),
    ("gt", operator.gt, range(-5, 6), range(-5, 6)),
    ("ge", operator.ge, range(-5, 6), range(-5, 6)),
    ("eq", operator.eq, range(-5, 6), range(-5, 6)),
    ("ne", operator.ne, range(-5, 6), range(-5, 6)),
    ("min", lambda a, b: ite(a < b, a, b), range(-5, 6), range(-5, 6)),
]
CONSTOPS = [
    ("mask7", lambda a: a & 7, range(-20, 21)),
    ("mask255", lambda a: a & 255, range(-300, 301)),
    ("shl3", lambda a: a << 3, range(-20, 21)),
    ("shr2", lambda a: a >> 2, range(-20, 21)),
    ("mod16", lambda a: a % 16, range(-40, 41)),
    ("div3", lambda a: a // 3, range(-40, 41)),
    ("mul17", lambda a: 17 * a, range(-40, 41)),
    ("rsub", lambda a: 5 - a, range(-40, 41)),
    ("neg", operator.neg, range(-40, 41)),
    ("abs", abs, range(-40, 41)),
    ("invert", operator.invert, range(-40, 41)),
    ("chain", lambda a: ((a * 3 + 7) // 2) % 5, range(-40, 41)),
]


def proxy_agreement():
    n = 0
    mirrors = 0
    for name, op, ra, rb in BINOPS:
        ctx = _ctx()
        a = ctx.int("a", min(ra), max(ra))
        b = ctx.int("b", min(rb), max(rb))
        try:
            r = op(a, b)
        except BaseException as e:  # noqa: BLE001
            FAIL.append("proxy %s raised %r" % (name, e))
            continue
        abv, ai = ctx.lia_vars["a"]
        bbv, bi = ctx.lia_vars["b"]
        for x, y in itertools.product(ra, rb):
            want = op(x, y)
            vb, vi = _value(ctx, r, [abv == z3.BitVecVal(x, abv.size()), bbv == z3.BitVecVal(y, bbv.size())], [ai == x, bi == y])
            n += 1
            if vb != want:
                FAIL.append("proxy %s(%d,%d): bit-vector encoding gives %r, CPython %r" % (name, x, y, vb, want))
                break
            if vi is not None:
                mirrors += 1
                if vi != want:
                    FAIL.append("proxy %s(%d,%d): integer mirror gives %r, CPython %r" % (name, x, y, vi, want))
                    break
    for name, op, ra in CONSTOPS:
        ctx = _ctx()
        a = ctx.int("a", min(ra), max(ra))
        r = op(a)
        abv, ai = ctx.lia_vars["a"]
        for x in ra:
            want = op(x)
            vb, vi = _value(ctx, r, [abv == z3.BitVecVal(x, abv.size())], [ai == x])
            n += 1
            if vb != want or (vi is not None and vi != want):
                FAIL.append("proxy %s(%d): encodings give %r / %r, CPython %r" % (name, x, vb, vi, want))
                break
            if vi is not None:
                mirrors += 1
    core._CUR = None
    print("proxy agreement: %d operand tuples, %d also on the integer mirror" % (n, mirrors))


def struct_agreement():
    from .conv import concretize
    from .shims import sx_pack, sx_unpack

    n = 0
    for fmt, ranges in [("!BBH", [255, 255, 65535]), ("!HHL", [65535, 65535, 2**32 - 1]), ("!LQ", [2**32 - 1, 2**64 - 1]), ("<HL", [65535, 2**32 - 1]), ("!B3x", [255]), ("!hl", [32767, 2**31 - 1])]:
        for trial in range(6):
            vals = [(hi * (trial + 1)) // 7 if trial < 5 else hi for hi in ranges]
            if fmt == "!hl" and trial % 2:
                vals = [-v - 1 for v in vals]
            ctx = _ctx()
            syms = [ctx.int("v%d" % i, -(hi + 1) if fmt == "!hl" else 0, hi) for i, hi in enumerate(ranges)]
            pins = []
            for i, v in enumerate(vals):
                bv, _ = ctx.lia_vars["v%d" % i]
                pins.append(bv == z3.BitVecVal(v, bv.size()))
            packed = sx_pack(fmt, *syms)
            back = sx_unpack(fmt, packed)
            s = ctx.solver
            s.push()
            s.add(*pins)
            assert s.check() == z3.sat
            m = s.model()
            got = concretize(packed, m)
            gotback = tuple(concretize(x, m) for x in back)
            s.pop()
            n += 1
            if bytes(got) != struct.pack(fmt, *vals) or gotback != tuple(vals):
                FAIL.append("struct %s %r: sx gives %r / %r, struct gives %r" % (fmt, vals, bytes(got), gotback, struct.pack(fmt, *vals)))
    core._CUR = None
    print("struct agreement: %d pack/unpack round trips" % n)


def _smt2_queries():
    """(name, expected verdict, smt2 text) of representative queries, built by the engine itself."""
    out = []
    # serial-number lemmas on the real utils.py (16 bit), negated property => unsat
    from harness import profiles
    from . import loader

    pr = profiles.for_property("C17")
    loader.install(pr["modules"], default=pr.get("default"))
    import aiortc.utils as utils

    from . import api as sx

    ctx = _ctx()
    a = ctx.int("a", 0, 65535)
    b = ctx.int("b", 0, 65535)
    c = ctx.int("c", 0, 65535)
    gab = utils.uint16_gt(a, b)
    dist = (a - b) & 0xFFFF
    props = {
        "gt-is-forward-distance": sx.Iff(gab, sx.And(dist != 0, dist < 0x8000)),
        "shift-invariant": sx.Iff(gab, utils.uint16_gt(utils.uint16_add(a, c), utils.uint16_add(b, c))),
        "never-both": sx.Not(sx.And(gab, utils.uint16_gt(b, a))),
    }
    for name, p in props.items():
        s = z3.Solver()
        s.add(ctx.solver.assertions())
        s.add(z3.Not(p.t) if isinstance(p, SymBool) else z3.BoolVal(not p))
        out.append(("lemma16-" + name, "unsat", s.to_smt2()))  # (on the path uint16_gt took: pc & not p)
    # a satisfiable one (wrong lemma): gt(a,b) implies a > b numerically
    s = z3.Solver()
    s.add(ctx.solver.assertions())
    wrong = (dist < 0x8000) == (a > b)  # "forward distance" is not numeric order: satisfiable negation
    s.add(z3.Not(wrong.t))
    out.append(("lemma16-wrong-numeric-order", "sat", s.to_smt2()))
    # the rounding band of round(0.85*T) on the integer mirror: 100*min(r, m) <= 85*T + 50
    T, r, m = z3.Ints("T r m")
    s = z3.Solver()
    s.add(T >= 0, T < 2**32, m >= 0, 20 * r - 17 * T <= 10, 17 * T - 20 * r <= 10, 100 * z3.If(r <= m, r, m) > 85 * T + 50)
    out.append(("aimd-round-band", "unsat", s.to_smt2()))
    core._CUR = None
    return out


def solver_agreement():
    queries = _smt2_queries()
    solvers = [("z3-5.x (python)", None)]
    for exe, args in (("/usr/bin/z3", ["-T:60"]), ("cvc5", ["--tlimit=60000"])):
        if shutil.which(exe):
            solvers.append((exe, args))
    d = tempfile.mkdtemp(prefix="st", dir=os.path.join(HERE, ".scratch") if os.path.isdir(os.path.join(HERE, ".scratch")) else None)
    n = 0
    try:
        for name, want, text in queries:
            verdicts = {}
            s = z3.Solver()
            s.from_string(text)
            verdicts["z3-python"] = str(s.check())
            f = os.path.join(d, name + ".smt2")
            logic = "QF_BV" if "BitVec" in text else "QF_NIA"
            with open(f, "w") as fh:
                fh.write("(set-logic %s)\n" % logic + "\n".join(l for l in text.splitlines() if not l.startswith("(set-info")))
            for exe, args in solvers[1:]:
                try:
                    p = subprocess.run([exe] + args + [f], capture_output=True, text=True, timeout=90)
                    v = (p.stdout.strip().splitlines() or ["?"])[0]
                    if "(error" in p.stdout:
                        v = "error"
                except subprocess.TimeoutExpired:
                    v = "timeout"
                verdicts[os.path.basename(exe)] = v
            n += 1
            bad = {k: v for k, v in verdicts.items() if v in ("sat", "unsat") and v != want}
            print("  %-34s expected %-5s %s" % (name, want, verdicts))
            if bad:
                FAIL.append("solver disagreement on %s: expected %s, got %r" % (name, want, verdicts))
    finally:
        shutil.rmtree(d, ignore_errors=True)
    print("solver agreement: %d queries x %d solvers" % (n, len(solvers)))


def seeds_matrix():
    missed = []
    names = sorted(os.listdir(os.path.join(HERE, "seeded")))
    for nm in names:
        p = subprocess.run([os.path.join(HERE, "tools", "eval_seed.sh"), nm, "quick"], capture_output=True, text=True)
        first = (p.stdout.strip().splitlines() or ["?"])[0]
        print("  " + first)
        meta = json.load(open(os.path.join(HERE, "seeded", nm, "meta.json")))
        if not meta.get("detected") and not meta.get("outside_claim"):
            missed.append(nm)
    if missed:
        FAIL.append("seeded changes not reported by their property's quick check: %s" % ", ".join(missed))


def main(argv):
    os.makedirs(os.path.join(HERE, ".scratch"), exist_ok=True)
    proxy_agreement()
    struct_agreement()
    solver_agreement()
    if "--seeds" in argv:
        seeds_matrix()
    for f in FAIL:
        print("SELFTEST-FAIL " + f)
    print("selftest: %s" % ("FAILED" if FAIL else "ok"))
    return 3 if FAIL else 0


if __name__ == "__main__":
    sys.exit(main(sys.argv[1:]))
