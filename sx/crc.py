"""Bit-precise CRC32c (Castagnoli, reflected, as google_crc32c.value) as a z3 term.

The model is the textbook bit-serial shift register itself: concrete prefixes are folded with the
byte table, symbolic bytes are fed bit by bit (LSB first).  This form propagates well in the SAT
core (every step is invertible), unlike an XOR-of-masks encoding (probe: 10 ms vs 9 s per burst
query).  The model is validated against the real google_crc32c on every run (harness c08
'crc-model').
"""
from __future__ import annotations

import z3

from .bytes_ import SymBytes, byte_term
from .ints import _mk

POLY = 0x82F63B78
_TABLE = []
for _i in range(256):
    _c = _i
    for _ in range(8):
        _c = (_c >> 1) ^ (POLY if _c & 1 else 0)
    _TABLE.append(_c)


def crc32c_ref(data: bytes) -> int:
    c = 0xFFFFFFFF
    for b in data:
        c = _TABLE[(c ^ b) & 0xFF] ^ (c >> 8)
    return c ^ 0xFFFFFFFF


def crc_model(data):
    """crc32c(data) for bytes | SymBytes, as int | SymInt."""
    if isinstance(data, (bytes, bytearray, memoryview)):
        return crc32c_ref(bytes(data))
    if not isinstance(data, SymBytes):
        raise TypeError("bytes-like object required")
    st = 0xFFFFFFFF
    poly = z3.BitVecVal(POLY, 32)
    zero = z3.BitVecVal(0, 32)
    for b in data.items:
        if isinstance(st, int) and isinstance(b, int):
            st = _TABLE[(st ^ b) & 0xFF] ^ (st >> 8)
            continue
        if isinstance(st, int):
            st = z3.BitVecVal(st, 32)
        bt = z3.BitVecVal(b, 8) if isinstance(b, int) else byte_term(b)
        for k in range(8):
            f = z3.Extract(0, 0, st) ^ z3.Extract(k, k, bt)
            st = z3.LShR(st, 1) ^ z3.If(f == 1, poly, zero)
    if isinstance(st, int):
        return st ^ 0xFFFFFFFF
    return _mk(z3.ZeroExt(1, st ^ z3.BitVecVal(0xFFFFFFFF, 32)), 0, 0xFFFFFFFF)
