"""SymBytes: a byte string of concrete length whose elements are ints or 8-bit SymInts."""
from __future__ import annotations

import z3

from . import core
from .core import Unsupported
from .ints import SymBool, SymInt, concretize_int

BytesLike = (bytes, bytearray, memoryview)


def mkbytes(items):
    """bytes if every element is concrete, else SymBytes."""
    for x in items:
        if not isinstance(x, int):
            return SymBytes(list(items))
    return bytes(items)


def byte_term(x):
    """8-bit z3 term for a byte element."""
    if isinstance(x, SymInt):
        return z3.Extract(7, 0, x.t) if x.t.size() >= 8 else z3.ZeroExt(8 - x.t.size(), x.t)
    return z3.BitVecVal(x, 8)


def byte_from_term(t8):
    t8 = z3.simplify(t8)
    if z3.is_bv_value(t8):
        return t8.as_long()
    return SymInt(z3.ZeroExt(1, t8), 0, 255)


def clamp_index(b, n: int, default: int) -> int:
    """CPython slice-bound clamping for a (possibly symbolic) bound; result concrete in [0,n]."""
    if b is None:
        return default
    if isinstance(b, SymBool):
        b = b.as_int()
    if isinstance(b, SymInt):
        if b < -n:
            return 0
        if b < 0:
            return concretize_int(b) + n
        if b > n:
            return n
        return concretize_int(b)
    b = b.__index__()
    if b < 0:
        b += n
        if b < 0:
            b = 0
    elif b > n:
        b = n
    return b


def items_of(o):
    if isinstance(o, SymBytes):
        return o.items
    if isinstance(o, BytesLike):
        return list(bytes(o))
    return None


class SymBytes:
    __slots__ = ("items",)

    def __init__(self, items):
        self.items = items

    def __len__(self):
        return len(self.items)

    def __bool__(self):
        return len(self.items) > 0

    def __iter__(self):
        return iter(self.items)

    def __hash__(self):
        raise Unsupported("hash of symbolic bytes")

    def __repr__(self):
        return "<SymBytes len=%d>" % len(self.items)

    __str__ = __repr__

    def __format__(self, spec):
        return repr(self)

    def __bytes__(self):
        raise Unsupported("bytes() of SymBytes reached C level")

    def __getitem__(self, i):
        n = len(self.items)
        if isinstance(i, slice):
            if i.step not in (None, 1):
                if isinstance(i.start, (SymInt, SymBool)) or isinstance(i.stop, (SymInt, SymBool)):
                    raise Unsupported("symbolic extended slice")
                return mkbytes(self.items[i])
            start = clamp_index(i.start, n, 0)
            stop = clamp_index(i.stop, n, n)
            return mkbytes(self.items[start:stop])
        if isinstance(i, SymBool):
            i = i.as_int()
        if isinstance(i, SymInt):
            if i >= n or i < -n:
                raise IndexError("index out of range")
            i = concretize_int(i)
        return self.items[i]

    def __add__(self, o):
        oi = items_of(o)
        if oi is None:
            return NotImplemented
        return mkbytes(self.items + oi)

    def __radd__(self, o):
        oi = items_of(o)
        if oi is None:
            return NotImplemented
        return mkbytes(oi + self.items)

    def __mul__(self, k):
        k = concretize_int(k)
        return mkbytes(self.items * k)

    __rmul__ = __mul__

    def __eq__(self, o):
        oi = items_of(o)
        if oi is None:
            return False
        if len(oi) != len(self.items):
            return False
        cs = []
        for a, b in zip(self.items, oi):
            if isinstance(a, int) and isinstance(b, int):
                if a != b:
                    return False
            else:
                cs.append(byte_term(a) == byte_term(b))
        if not cs:
            return True
        return SymBool.of(z3.And(*cs))

    def __ne__(self, o):
        r = self.__eq__(o)
        if isinstance(r, SymBool):
            return SymBool.of(z3.Not(r.t))
        return not r

    def __contains__(self, x):
        if isinstance(x, (int, SymInt)):
            for it in self.items:
                if it == x:
                    return True
            return False
        return self.find(x) >= 0

    def find(self, sub, start=None, end=None):
        si = items_of(sub)
        if si is None:
            raise TypeError("a bytes-like object is required")
        n = len(self.items)
        start = clamp_index(start, n, 0)
        end = clamp_index(end, n, n)
        m = len(si)
        for p in range(start, end - m + 1):
            if mkbytes(self.items[p : p + m]) == sub:
                return p
        return -1

    def index(self, sub, start=None, end=None):
        r = self.find(sub, start, end)
        if r < 0:
            raise ValueError("subsection not found")
        return r

    def startswith(self, prefix):
        pi = items_of(prefix)
        if len(pi) > len(self.items):
            return False
        return bool(mkbytes(self.items[: len(pi)]) == prefix)

    def endswith(self, suffix):
        si = items_of(suffix)
        if len(si) > len(self.items):
            return False
        return bool(mkbytes(self.items[len(self.items) - len(si) :]) == suffix)

    def decode(self, encoding="utf-8", errors="strict"):
        from .strs import decode_bytes

        return decode_bytes(self, encoding, errors)

    def hex(self):
        return "<symbytes>"

    def term(self):
        """Concatenation of all bytes as one z3 bit-vector (big-endian)."""
        if not self.items:
            raise core.EngineError("empty")
        ts = [byte_term(x) for x in self.items]
        return z3.Concat(*ts) if len(ts) > 1 else ts[0]


def bytes_eq(a, b):
    """Equality usable for bytes|SymBytes operands on either side."""
    if isinstance(a, SymBytes):
        return a == b
    if isinstance(b, SymBytes):
        return b == a
    return a == b
