"""Path explorer: DFS over decision prefixes with re-execution, z3 deciding every branch.

A *harness* is a plain Python function ``h(ctx, **params)``.  It obtains its inputs from
``ctx`` (``ctx.int``, ``ctx.bytes`` ...), drives the real aiortc code and states properties with
``ctx.check``.  The same function runs in two modes:

* ``sym``  - inputs are proxies (sx.ints / sx.bytes_ ...); every ``bool()`` of a symbolic
             condition is a fork decided by the solver; all feasible paths are explored.
* ``conc`` - inputs are ordinary Python values taken from a dict (a solver model); used to
             replay counterexamples and to cross-validate the proxies against CPython.
"""
from __future__ import annotations

import os
import time
import traceback
from typing import Any, Callable, Optional

import z3


class PathAbort(BaseException):
    """The current path is infeasible (assume failed)."""


class PathCut(BaseException):
    """The current path exceeded an unwinding / decision bound."""


class Unsupported(BaseException):
    """The engine met an operation it cannot model.  Never swallowed by `except Exception`."""


class EngineError(BaseException):
    pass


_CUR: Optional["Ctx"] = None


def cur() -> "Ctx":
    if _CUR is None:
        raise EngineError("no active context")
    return _CUR


def active() -> bool:
    return _CUR is not None and _CUR.mode == "sym"


class Stats:
    __slots__ = ("queries", "sat", "unsat", "unknown", "time_s", "lia_unsat", "lia_sat_confirmed", "lia_other")

    def __init__(self):
        self.queries = self.sat = self.unsat = self.unknown = 0
        self.lia_unsat = self.lia_sat_confirmed = self.lia_other = 0
        self.time_s = 0.0

    def add(self, o: "Stats"):
        self.queries += o.queries
        self.sat += o.sat
        self.unsat += o.unsat
        self.unknown += o.unknown
        self.time_s += o.time_s
        self.lia_unsat += o.lia_unsat
        self.lia_sat_confirmed += o.lia_sat_confirmed
        self.lia_other += o.lia_other

    def as_dict(self):
        return {
            "queries": self.queries,
            "sat": self.sat,
            "unsat": self.unsat,
            "unknown": self.unknown,
            "time_s": round(self.time_s, 3),
            "decided_on_integer_mirror": {"unsat": self.lia_unsat, "sat_confirmed_on_bitvectors": self.lia_sat_confirmed, "fell_back_to_bitvectors": self.lia_other},
        }


class Ctx:
    def __init__(self, mode: str, trace=(), values=None, opts=None, stats=None):
        self.mode = mode
        self.opts = opts or {}
        self.trace = list(trace)
        self.pos = 0
        self.values = values or {}
        self.stats = stats or Stats()
        self.inputs: dict[str, Any] = {}  # name -> proxy or concrete value
        self.input_meta: dict[str, tuple] = {}
        self.counter: dict[str, int] = {}
        self.decisions = 0
        self.new_decisions = 0
        self.max_decisions = self.opts.get("max_decisions", 4000)
        self.assumes: list[str] = []
        self.violations: dict[str, dict] = {}
        self.known_hits: dict[str, dict] = {}
        self.reached: set[str] = set()
        self.observations: list[tuple[str, Any]] = []
        self.inconclusive: list[str] = []
        self.notes: set[str] = set()
        self.known = self.opts.get("known", [])  # list of known-finding records for this harness
        self.float_sites: set = set()
        self.defs: dict[str, Any] = {}
        if mode == "sym":
            self.solver = z3.Solver()
            self.solver.set("timeout", int(self.opts.get("query_timeout_ms", 10000)))
            self.model: Optional[z3.ModelRef] = None
            self.model_valid = False
            self.pc_len = 0
        # optional second encoding of the same path condition over mathematical integers (the
        # "mirror", see ints.SymInt.i): linear arithmetic that bit-blasting decides badly
        self.lia = bool(self.opts.get("lia")) and mode == "sym"
        # "first": ask the mirror before the bit-vector encoding; "fallback": only when z3 answers unknown
        self.lia_first = self.opts.get("lia") in (True, "first")
        if self.lia:
            self.lia_solver = z3.Solver()
            self.lia_solver.set("timeout", int(self.opts.get("lia_timeout_ms", 3000)))
            self.lia_vars: dict[str, tuple] = {}

    # ------------------------------------------------------------------ solver plumbing
    def _fresh_check(self):
        """Decide the current assertion stack with a fresh, non-incremental solver (z3's
        incremental core is much weaker on XOR-heavy / wide bit-vector queries)."""
        s2 = z3.Solver()
        s2.set("timeout", int(self.opts.get("query_timeout_ms", 10000)))
        s2.add(self.solver.assertions())
        r = s2.check()
        self._fresh_model = s2.model() if r == z3.sat else None
        return r

    def _check(self, *extra) -> z3.CheckSatResult:
        t0 = time.perf_counter()
        self._fresh_model = None
        if self.opts.get("solver_mode") == "fresh" and not extra:
            r = self._fresh_check()
        else:
            r = self.solver.check(*extra)
            if r == z3.unknown and not extra:
                r = self._fresh_check()
        dt = time.perf_counter() - t0
        if dt > 2 and os.environ.get("SX_SLOWQ"):
            with open(os.environ["SX_SLOWQ"], "a") as fh:
                fh.write("; %.1fs %s\n%s\n" % (dt, r, self.solver.to_smt2() if self.pos >= 0 else ""))
        st = self.stats
        st.queries += 1
        st.time_s += dt
        if r == z3.sat:
            st.sat += 1
        elif r == z3.unsat:
            st.unsat += 1
        else:
            st.unknown += 1
        return r

    def lia_var(self, name, bv, lo, hi):
        """Integer-sort twin of input `name` (None unless the harness opted in)."""
        if not getattr(self, "lia", False):
            return None
        i = z3.Int(name)
        self.lia_vars[name] = (bv, i)
        self.lia_solver.add(i >= lo, i <= hi)
        return i

    def _lia_try(self, conds, mirrors):
        """Decide pc & conds on the integer mirror.  The mirror of the path condition is a
        subset of the real one (conditions without a mirror are dropped), so `unsat` carries
        over; a mirror model is only a hint and is confirmed on the bit-vector encoding with
        all inputs pinned.  Returns (unsat, None), (sat, bv_model) or (None, None)."""
        t0 = time.perf_counter()
        st = self.stats
        ls = self.lia_solver
        ls.push()
        try:
            for m in mirrors:
                ls.add(m)
            r = ls.check()
            lm = ls.model() if r == z3.sat else None
        finally:
            ls.pop()
        out = (None, None)
        if r == z3.unsat:
            st.lia_unsat += 1
            st.unsat += 1
            out = (z3.unsat, None)
        elif r == z3.sat:
            pins = []
            for bv, i in self.lia_vars.values():
                v = lm.eval(i, model_completion=True).as_long()
                pins.append(bv == z3.BitVecVal(v, bv.size()))
            self.solver.push()
            try:
                for c in conds:
                    self.solver.add(c)
                r2 = self.solver.check(*pins)
                if r2 == z3.sat:
                    st.lia_sat_confirmed += 1
                    st.sat += 1
                    out = (z3.sat, self.solver.model())
            finally:
                self.solver.pop()
        if out[0] is None:
            st.lia_other += 1
        else:
            st.queries += 1
        st.time_s += time.perf_counter() - t0
        return out

    def _ensure_model(self):
        if not self.model_valid and self.lia and self.lia_first:
            r, m = self._lia_try((), ())
            if r == z3.unsat:
                raise PathAbort()
            if r == z3.sat:
                self.model = m
                self.model_valid = True
        if not self.model_valid:
            r = self._check()
            if r == z3.unknown and self.lia and not self.lia_first:
                r2, m2 = self._lia_try((), ())
                if r2 == z3.unsat:
                    raise PathAbort()
                if r2 == z3.sat:
                    self.model = m2
                    self.model_valid = True
                    return self.model
            if r == z3.sat:
                self.model = self._fresh_model if self._fresh_model is not None else self.solver.model()
                self.model_valid = True
            elif r == z3.unsat:
                raise PathAbort()
            else:
                self.inconclusive.append("solver unknown on path condition")
                raise PathCut("unknown")
        return self.model

    def _add(self, c, mirror=None):
        self.solver.add(c)
        self.pc_len += 1
        if mirror is not None and self.lia:
            self.lia_solver.add(mirror)

    def sat_with(self, *conds, mirrors=None):
        """Is pc & conds satisfiable?  Returns (result, model|None)."""
        have_mirror = self.lia and mirrors is not None and all(m is not None for m in mirrors)
        if have_mirror and self.lia_first:
            r, m = self._lia_try(conds, mirrors)
            if r is not None:
                return r, m
        self.solver.push()
        try:
            for c in conds:
                self.solver.add(c)
            r = self._check()
            m = (self._fresh_model if self._fresh_model is not None else self.solver.model()) if r == z3.sat else None
        finally:
            self.solver.pop()
        if r == z3.unknown and have_mirror and not self.lia_first:
            r2, m2 = self._lia_try(conds, mirrors)
            if r2 is not None:
                self.stats.unknown -= 1
                return r2, m2
        return r, m

    # ------------------------------------------------------------------ decisions
    def branch(self, cond, mirror=None) -> bool:
        """Decide a symbolic condition (z3 BoolRef) on this path."""
        if self.mode != "sym":
            raise EngineError("branch in concrete mode")
        if z3.is_true(cond):
            return True
        if z3.is_false(cond):
            return False
        self.decisions += 1
        if self.decisions > self.max_decisions:
            raise PathCut("max_decisions")
        if self.pos < len(self.trace):
            e = self.trace[self.pos]
            self.pos += 1
            if e[0] != "b":
                raise EngineError("trace divergence: expected branch, got %r" % (e,))
            val = e[1]
            self._add(cond if val else z3.Not(cond), None if mirror is None else (mirror if val else z3.Not(mirror)))
            if self.pos == len(self.trace) and len(e) > 3 and e[3] is not None:
                self.model = e[3]
                self.model_valid = True
            else:
                self.model_valid = False
            return val
        # new decision
        m = self._ensure_model()
        mv = m.eval(cond, model_completion=True)
        if z3.is_true(mv):
            first = True
        elif z3.is_false(mv):
            first = False
        else:
            # model evaluation could not decide (should not happen for QF_BV)
            r, _ = self.sat_with(cond)
            first = r == z3.sat
            self.model_valid = False
        other = z3.Not(cond) if first else cond
        r, om = self.sat_with(other, mirrors=[None if mirror is None else (z3.Not(mirror) if first else mirror)])
        if r == z3.unknown:
            self.inconclusive.append("solver unknown at branch")
        alt = r == z3.sat
        self.trace.append(("b", first, alt, om if alt else None))
        self.pos += 1
        self.new_decisions += 1
        self._add(cond if first else z3.Not(cond), None if mirror is None else (mirror if first else z3.Not(mirror)))
        return first

    def pick_value(self, term):
        """Return a concrete value of a z3 term that is feasible on this path (recorded)."""
        if self.pos < len(self.trace):
            e = self.trace[self.pos]
            self.pos += 1
            if e[0] != "v":
                raise EngineError("trace divergence: expected value, got %r" % (e,))
            return e[1]
        m = self._ensure_model()
        v = m.eval(term, model_completion=True)
        if z3.is_bv_value(v):
            val = v.as_signed_long()
        elif z3.is_int_value(v):
            val = v.as_long()
        else:
            raise EngineError("cannot concretise %r" % (v,))
        self.trace.append(("v", val))
        self.pos += 1
        return val

    def assume(self, cond, why: str = ""):
        if why:
            self.assumes.append(why)
        if self.mode != "sym":
            if not cond:
                raise PathAbort()
            return
        from .ints import SymBool

        mirror = None
        if isinstance(cond, SymBool):
            mirror = cond.i
            cond = cond.t
        if isinstance(cond, bool):
            if not cond:
                raise PathAbort()
            return
        cond = z3.simplify(cond)
        if z3.is_true(cond):
            return
        if z3.is_false(cond):
            raise PathAbort()
        self._add(cond, mirror)
        if self.model_valid:
            mv = self.model.eval(cond, model_completion=True)
            if not z3.is_true(mv):
                self.model_valid = False
        # feasibility is established lazily (next branch) or now if we are past the prefix
        if self.pos >= len(self.trace) and not self.model_valid:
            self._ensure_model()

    # ------------------------------------------------------------------ property statements
    def define(self, name: str, value):
        """Name a derived value so that known-finding signatures can refer to it."""
        self.defs[name] = value

    def reach(self, label: str):
        self.reached.add(label)

    def note(self, text: str):
        self.notes.add(text)

    def observe(self, name: str, value):
        self.observations.append((name, value))

    def input_values(self, model=None):
        """Concrete values of all named inputs under `model` (sym) or as given (conc)."""
        from .conv import concretize

        if self.mode != "sym":
            return dict(self.inputs)
        if model is None:
            model = self._ensure_model()
        return {k: concretize(v, model) for k, v in self.inputs.items()}

    def _known_sigs(self, label):
        out = []
        for k in self.known:
            if k.get("label") not in (None, label):
                continue
            sig = self._eval_sig(k)
            if sig is not None:
                out.append((k, sig))
        return out

    def _eval_sig(self, k):
        from . import api
        from .ints import SymBool

        expr = k.get("signature")
        if not expr:
            return z3.BoolVal(True) if self.mode == "sym" else True
        ns = {"And": api.And, "Or": api.Or, "Not": api.Not, "len": api.len_}
        ns.update(self.inputs)
        ns.update(self.defs)
        ns["params"] = self.opts.get("params", {})
        try:
            v = eval(expr, ns)  # noqa: S307 - expressions come from the committed known_findings.json
        except (NameError, KeyError, IndexError):
            return None
        if self.mode != "sym":
            return bool(v)
        if isinstance(v, SymBool):
            return v.t
        return z3.BoolVal(bool(v))

    def fail(self, label: str, detail: str = ""):
        """Unconditional violation on this path (e.g. an escaping exception)."""
        self.check(False, label, detail)

    def check(self, cond, label: str, detail: str = ""):
        """Assert `cond` on this path; a satisfiable negation is a violation candidate."""
        self.reached.add("check:" + label)
        from .ints import SymBool

        if self.mode != "sym":
            if isinstance(cond, SymBool):
                raise EngineError("symbolic value in concrete mode")
            if not cond:
                known = None
                for k in self.known:
                    if k.get("label") in (None, label):
                        s = self._eval_sig(k)
                        if s:
                            known = k
                            break
                rec = {"label": label, "detail": detail}
                if known is not None:
                    self.known_hits.setdefault(known["key"], rec)
                else:
                    self.violations.setdefault(label, rec)
                raise PathAbort()
            return
        mirror = None
        if isinstance(cond, SymBool):
            c = z3.simplify(cond.t)
            mirror = cond.i
        elif isinstance(cond, z3.BoolRef):
            c = z3.simplify(cond)
        else:
            c = z3.BoolVal(bool(cond))
        if z3.is_true(c):
            return
        neg = z3.Not(c)
        sigs = self._known_sigs(label)
        # 1. violation outside every known signature?
        outside = [neg] + [z3.Not(s) for _, s in sigs]
        r, m = self.sat_with(*outside, mirrors=[None if (mirror is None or sigs) else z3.Not(mirror)])
        if r == z3.sat:
            if label not in self.violations:
                self.violations[label] = {
                    "label": label,
                    "detail": detail,
                    "inputs": self.input_values(m),
                    "trace_len": len(self.trace),
                }
        elif r == z3.unknown:
            self.inconclusive.append("solver unknown at check " + label)
        # 2. known findings confirmed?
        for k, s in sigs:
            if k["key"] in self.known_hits:
                continue
            r2, m2 = self.sat_with(neg, s)
            if r2 == z3.sat:
                self.known_hits[k["key"]] = {
                    "label": label,
                    "detail": detail,
                    "inputs": self.input_values(m2),
                }
        # continue under the assumption that the property holds here
        if z3.is_false(c):
            raise PathAbort()
        self._add(c, mirror)
        self.model_valid = False
        if self.pos >= len(self.trace):
            self._ensure_model()

    # ------------------------------------------------------------------ inputs
    def _name(self, prefix: str) -> str:
        n = self.counter.get(prefix, 0)
        self.counter[prefix] = n + 1
        return "%s#%d" % (prefix, n)

    def int(self, name: str, lo: int, hi: int):
        from .ints import SymInt

        if name.endswith("#"):
            name = self._name(name[:-1])
        if name in self.inputs:
            raise EngineError("duplicate input " + name)
        if self.mode != "sym":
            v = self.values.get(name)
            if v is None:
                v = lo if lo > 0 else (0 if hi >= 0 else hi)
            self.inputs[name] = v
            return v
        if lo == hi:
            self.inputs[name] = lo
            return lo
        v = SymInt.var(name, lo, hi, self)
        self.inputs[name] = v
        return v

    def bool(self, name: str):
        from .ints import SymBool

        if name.endswith("#"):
            name = self._name(name[:-1])
        if self.mode != "sym":
            v = bool(self.values.get(name, False))
            self.inputs[name] = v
            return v
        b = z3.Bool(name)
        v = SymBool(b, b if self.lia else None)
        self.inputs[name] = v
        return v

    def bytes(self, name: str, n: int):
        from .bytes_ import SymBytes
        from .ints import SymInt

        if name.endswith("#"):
            name = self._name(name[:-1])
        if self.mode != "sym":
            v = self.values.get(name)
            if v is None:
                v = bytes(n)
            if isinstance(v, str):
                v = bytes.fromhex(v)
            if isinstance(v, list):
                v = bytes(v)
            if len(v) != n:
                v = (v + bytes(n))[:n]
            self.inputs[name] = v
            return v
        items = [SymInt.var("%s[%d]" % (name, i), 0, 255, self) for i in range(n)]
        v = SymBytes(items)
        self.inputs[name] = v
        return v

    def str(self, name: str, n: int, lo: int = 0x20, hi: int = 0x7E, exclude_surrogates=True):
        """String of n symbolic code points in [lo, hi]."""
        from .ints import SymInt
        from .strs import mkstr

        if name.endswith("#"):
            name = self._name(name[:-1])
        if self.mode != "sym":
            v = self.values.get(name)
            if v is None:
                v = chr(lo) * n
            if isinstance(v, list):
                v = "".join(chr(c) for c in v)
            self.inputs[name] = v
            return v
        cps = []
        for i in range(n):
            c = SymInt.var("%s[%d]" % (name, i), lo, hi, self)
            if exclude_surrogates and lo <= 0xDFFF and hi >= 0xD800 and not isinstance(c, int):
                self.assume(z3.Or(c.t < 0xD800, c.t > 0xDFFF))
            cps.append(c)
        v = mkstr(cps)
        self.inputs[name] = v
        return v

    def choice(self, name: str, options):
        """A solver-chosen element of a concrete list (forks per feasible index)."""
        options = list(options)
        if len(options) == 1:
            return options[0]
        idx = self.int(name, 0, len(options) - 1)
        if self.mode != "sym":
            return options[idx]
        from .ints import concretize_int

        return options[concretize_int(idx)]


# ---------------------------------------------------------------------- exploration
class Result:
    def __init__(self):
        self.paths = 0
        self.cut = 0
        self.aborted = 0
        self.decisions = 0
        self.max_depth = 0
        self.violations: dict[str, dict] = {}
        self.known_hits: dict[str, dict] = {}
        self.samples: list[dict] = []
        self.leftover: list[list] = []
        self.stats = Stats()
        self.inconclusive: list[str] = []
        self.reached: set[str] = set()
        self.errors: list[str] = []
        self.assumes: set[str] = set()
        self.notes: set[str] = set()
        self.cut_reasons: dict[str, int] = {}
        self.float_sites: set = set()
        self.wall_s = 0.0

    def merge(self, o: "Result"):
        self.paths += o.paths
        self.cut += o.cut
        self.aborted += o.aborted
        self.decisions += o.decisions
        self.max_depth = max(self.max_depth, o.max_depth)
        for k, v in o.violations.items():
            self.violations.setdefault(k, v)
        for k, v in o.known_hits.items():
            self.known_hits.setdefault(k, v)
        for s in o.samples:
            if len(self.samples) < 40:
                self.samples.append(s)
        self.stats.add(o.stats)
        self.inconclusive.extend(o.inconclusive[:20])
        self.reached |= o.reached
        self.errors.extend(o.errors[:20])
        self.assumes |= o.assumes
        self.notes |= o.notes
        for k, v in o.cut_reasons.items():
            self.cut_reasons[k] = self.cut_reasons.get(k, 0) + v
        self.float_sites |= o.float_sites
        self.wall_s += o.wall_s


def _strip(trace):
    """Drop model objects so that a trace can be pickled / re-queued."""
    out = []
    for e in trace:
        if e[0] == "b":
            out.append(("b", e[1], False, None))
        else:
            out.append(e)
    return out


def run_path(fn: Callable, params: dict, ctx: Ctx):
    """Run the harness once under ctx; returns outcome in {'done','abort','cut','error'}."""
    global _CUR
    prev = _CUR
    _CUR = ctx
    try:
        fn(ctx, **params)
        return "done", None
    except PathAbort:
        return "abort", None
    except PathCut as e:
        return "cut", str(e)
    except Unsupported as e:
        return "error", "Unsupported: %s\n%s" % (e, "".join(traceback.format_tb(e.__traceback__)[-6:]))
    except EngineError as e:
        return "error", "EngineError: %s\n%s" % (e, "".join(traceback.format_tb(e.__traceback__)[-6:]))
    except RecursionError as e:
        return "error", "RecursionError %s" % e
    except Exception as e:  # an exception escaping the harness = the harness did not expect it
        if type(e).__module__.split(".")[0] in ("z3", "ctypes"):
            return "error", "solver API error: %s: %s\n%s" % (type(e).__name__, e, "".join(traceback.format_tb(e.__traceback__)[-8:]))
        tb = traceback.extract_tb(e.__traceback__)
        site = ""
        for fr in reversed(tb):
            if "/sx/" not in fr.filename:
                site = "%s:%s:%d" % (fr.filename.rsplit("/", 1)[-1], fr.name, fr.lineno)
                break
        label = "escape:%s@%s" % (type(e).__name__, site)
        try:
            ctx.fail(label, "%s: %s" % (type(e).__name__, str(e)[:200]))
        except PathAbort:
            pass
        except Unsupported as e2:
            return "error", "Unsupported while reporting: %s" % e2
        return "escaped", None
    finally:
        _CUR = prev


def _run_path_timed(fn, params, ctx, timeout_s):
    """run_path under a wall-clock cap (a path can loop forever on concrete state)."""
    import signal
    import threading

    if threading.current_thread() is not threading.main_thread() or not timeout_s:
        return run_path(fn, params, ctx)

    def on_alarm(signum, frame):
        raise PathCut("path-timeout")

    old = signal.signal(signal.SIGALRM, on_alarm)
    signal.setitimer(signal.ITIMER_REAL, timeout_s)
    try:
        return run_path(fn, params, ctx)
    except PathCut as e:  # raised after run_path's own handlers were left
        return "cut", str(e)
    finally:
        signal.setitimer(signal.ITIMER_REAL, 0)
        signal.signal(signal.SIGALRM, old)


class timelimit:
    """Concrete-mode watchdog: `with timelimit(ctx, 2.0, label): call()`; not returning in time is
    reported as a violation with that label.  No effect in symbolic mode (the explorer's unwinding
    bound and path timeout do that job there)."""

    def __init__(self, ctx, seconds, label):
        self.ctx, self.seconds, self.label = ctx, seconds, label

    def __enter__(self):
        import signal

        if self.ctx.mode == "sym":
            return self

        def on_alarm(signum, frame):
            raise TimeoutError("watchdog")

        self.old = signal.signal(signal.SIGALRM, on_alarm)
        signal.setitimer(signal.ITIMER_REAL, self.seconds)
        return self

    def __exit__(self, et, ev, tb):
        import signal

        if self.ctx.mode == "sym":
            return False
        signal.setitimer(signal.ITIMER_REAL, 0)
        signal.signal(signal.SIGALRM, self.old)
        if et is TimeoutError and str(ev) == "watchdog":
            try:
                self.ctx.fail(self.label, "did not return within %.1f s" % self.seconds)
            except PathAbort:
                pass
            raise PathAbort()
        return False


def explore(fn, params, prefix=(), opts=None, budget_s=None, max_paths=None) -> Result:
    opts = dict(opts or {})
    opts["params"] = params
    res = Result()
    t_start = time.perf_counter()
    stack = [list(prefix)]
    nsamples = opts.get("samples", 3)
    # Harnesses that drive real event loops leave helper threads behind (asyncio's default executor:
    # getaddrinfo, close).  The cyclic garbage collector may then run in such a thread and free z3
    # objects while the main thread is inside a z3 call with the GIL released - libz3 is not
    # thread-safe and crashes.  With gc_guard the collector only runs here, between paths.
    gc_guard = bool(opts.get("gc_guard"))
    if gc_guard:
        import gc

        gc.disable()
    npaths_gc = 0
    while stack:
        if gc_guard:
            npaths_gc += 1
            if npaths_gc % 20 == 0:
                gc.collect()
        if (budget_s is not None and time.perf_counter() - t_start > budget_s) or (
            max_paths is not None and res.paths + res.cut + res.aborted >= max_paths
        ):
            res.leftover = [_strip(t) for t in stack]
            break
        trace = stack.pop()
        n0 = len(trace)
        ctx = Ctx("sym", trace, opts=opts, stats=res.stats)
        outcome, info = _run_path_timed(fn, params, ctx, opts.get("path_timeout_s", 60))
        if outcome == "cut" and opts.get("cut_is_violation") and info in ("max_decisions", "path-timeout"):
            # NC harnesses: a path that needs more work than the budget allows is a hang candidate;
            # the concrete replay (under a wall-clock cap) decides whether it is reported
            try:
                global _CUR
                prev, _CUR = _CUR, ctx
                try:
                    ctx.decisions = 0
                    ctx.max_decisions = 1 << 30
                    ctx.pos = len(ctx.trace)
                    ctx.model_valid = False
                    ctx.fail("hang:work-out-of-proportion", "path cut by %s" % info)
                finally:
                    _CUR = prev
            except (PathAbort, PathCut):
                pass
        res.decisions += ctx.new_decisions
        res.max_depth = max(res.max_depth, ctx.decisions)
        res.reached |= ctx.reached
        res.assumes |= set(ctx.assumes)
        res.notes |= ctx.notes
        res.float_sites |= ctx.float_sites
        if ctx.inconclusive:
            res.inconclusive.extend(ctx.inconclusive[:5])
        for k, v in ctx.violations.items():
            res.violations.setdefault(k, v)
        for k, v in ctx.known_hits.items():
            res.known_hits.setdefault(k, v)
        if outcome == "done":
            res.paths += 1
            if len(res.samples) < nsamples and ctx.pos >= n0:
                try:
                    from .conv import concretize

                    m = ctx._ensure_model()
                    res.samples.append(
                        {
                            "inputs": ctx.input_values(m),
                            "obs": [(k, concretize(v, m)) for k, v in ctx.observations],
                        }
                    )
                except (PathAbort, PathCut):
                    pass
        elif outcome == "escaped":
            res.paths += 1
        elif outcome == "abort":
            res.aborted += 1
            if ctx.pos < n0:
                res.errors.append("replay of prefix aborted before its end (trace divergence)")
        elif outcome == "cut":
            res.cut += 1
            res.cut_reasons[info or "?"] = res.cut_reasons.get(info or "?", 0) + 1
        else:
            res.errors.append(info)
            if len(res.errors) > 5:
                break
        # schedule alternatives of the decisions made on this run
        tr = ctx.trace
        for i in range(n0, len(tr)):
            e = tr[i]
            if e[0] == "b" and e[2]:
                stack.append(tr[:i] + [("b", not e[1], False, e[3])])
    res.wall_s = time.perf_counter() - t_start
    return res


def run_concrete(fn, params, values, opts=None):
    """Run the harness with concrete inputs on whatever `aiortc` is importable (plain code)."""
    o = dict(opts or {})
    o["params"] = params
    ctx = Ctx("conc", values=values, opts=o)
    outcome, info = run_path(fn, params, ctx)
    return ctx, outcome, info
