"""Floats without the FP theory inside the exploration loop (DESIGN 2.2).

SymRatio = exact rational N/D of (symbolic) integers, produced by true division of ints.  The
places where the real code turns such a quotient back into an integer (`math.ceil(a / c)`,
`int(a / c)`, `round`, comparisons) are evaluated *exactly* on the rational; that this equals the
IEEE-754 double result for the operand ranges seen in the run is a conversion-site contract that
is recorded in ctx.float_sites and discharged by standalone QF_FP lemmas (harness/lemmas.py).
"""
from __future__ import annotations

from . import core
from .core import Unsupported
from .ints import SymBool, SymInt, _iv


def _rng(v):
    lo, hi = _iv(v)
    return (lo, hi)


def ratio(n, d):
    if isinstance(n, SymBool):
        n = n.as_int()
    if isinstance(d, SymBool):
        d = d.as_int()
    if isinstance(n, float) or isinstance(d, float):
        raise Unsupported("float operand in symbolic true division")
    if not isinstance(n, (int, SymInt)) or not isinstance(d, (int, SymInt)):
        return NotImplemented
    if isinstance(d, SymInt):
        if d.lo <= 0 <= d.hi and bool(d == 0):
            raise ZeroDivisionError("division by zero")
    elif d == 0:
        raise ZeroDivisionError("division by zero")
    return SymRatio(n, d)


def scale(x, c: float):
    """float constant * symbolic int as an exact rational.  The product is exact in IEEE double
    iff mantissa_bits(c) + bits(x) <= 53; the site is recorded with that verdict."""
    from fractions import Fraction

    if c != c or c in (float("inf"), float("-inf")):
        raise Unsupported("non-finite float constant")
    f = Fraction(c)
    lo, hi = _iv(x)
    mant = f.numerator.bit_length()
    xb = max(abs(lo), abs(hi)).bit_length()
    core.cur().float_sites.add(("mul-const", repr(c), (lo, hi), "exact" if mant + xb <= 53 else "inexact"))
    return SymRatio(x * f.numerator, f.denominator)


class SymRatio:
    """n/d with d != 0 on this path."""

    __slots__ = ("n", "d")

    def __init__(self, n, d):
        self.n = n
        self.d = d

    def _site(self, op):
        core.cur().float_sites.add((op, _rng(self.n), _rng(self.d)))

    def _posd(self):
        """(n', d') with d' > 0."""
        d = self.d
        if isinstance(d, SymInt):
            if d.lo > 0:
                return self.n, d
            if d.hi < 0:
                return -self.n, -d
            if bool(d > 0):
                return self.n, d
            return -self.n, -d
        if d > 0:
            return self.n, d
        return -self.n, -d

    def __ceil__(self):
        self._site("ceil")
        n, d = self._posd()
        return -((-n) // d)

    def __floor__(self):
        self._site("floor")
        n, d = self._posd()
        return n // d

    def __trunc__(self):
        self._site("trunc")
        n, d = self._posd()
        q = n // d
        if isinstance(n, int) and n >= 0:
            return q
        if isinstance(n, SymInt) and n.lo >= 0:
            return q
        # truncation toward zero for negatives
        if bool(n < 0) and bool(n % d != 0):
            return q + 1
        return q

    def sx_int(self):
        return self.__trunc__()

    def __round__(self, nd=None):
        if nd is not None:
            raise Unsupported("round(x, n) on ratio")
        self._site("round")
        n, d = self._posd()
        # round half to even
        q = (2 * n + d) // (2 * d)
        if bool((2 * n + d) % (2 * d) == 0) and bool(q % 2 != 0):
            return q - 1
        return q

    def _cmp(self, o, op):
        if isinstance(o, SymRatio):
            n1, d1 = self._posd()
            n2, d2 = o._posd()
            l, r = n1 * d2, n2 * d1
        elif isinstance(o, (int, SymInt, SymBool)):
            n1, d1 = self._posd()
            l, r = n1, o * d1
        elif isinstance(o, float):
            if o.is_integer():
                return self._cmp(int(o), op)
            from fractions import Fraction

            f = Fraction(o)
            n1, d1 = self._posd()
            l, r = n1 * f.denominator, f.numerator * d1
        else:
            return NotImplemented
        self._site("cmp")
        if op == "lt":
            return l < r
        if op == "le":
            return l <= r
        if op == "gt":
            return l > r
        if op == "ge":
            return l >= r
        if op == "eq":
            return l == r
        return l != r

    def __lt__(self, o):
        return self._cmp(o, "lt")

    def __le__(self, o):
        return self._cmp(o, "le")

    def __gt__(self, o):
        return self._cmp(o, "gt")

    def __ge__(self, o):
        return self._cmp(o, "ge")

    def __eq__(self, o):
        r = self._cmp(o, "eq")
        return False if r is NotImplemented else r

    def __ne__(self, o):
        r = self._cmp(o, "ne")
        return True if r is NotImplemented else r

    def __hash__(self):
        raise Unsupported("hash of symbolic ratio")

    def __bool__(self):
        return bool(self.n != 0)

    def __float__(self):
        raise Unsupported("float() of symbolic ratio")

    def __truediv__(self, o):
        if isinstance(o, (int, SymInt)):
            if bool(o == 0):
                raise ZeroDivisionError("float division by zero")
            return SymRatio(self.n, self.d * o)
        raise Unsupported("ratio / %s" % type(o).__name__)

    def __mul__(self, o):
        if isinstance(o, (int, SymInt)):
            return SymRatio(self.n * o, self.d)
        raise Unsupported("ratio * %s" % type(o).__name__)

    __rmul__ = __mul__

    def __add__(self, o):
        if isinstance(o, (int, SymInt)):
            return SymRatio(self.n + o * self.d, self.d)
        raise Unsupported("ratio + %s" % type(o).__name__)

    __radd__ = __add__

    def __repr__(self):
        return "<SymRatio>"

    def __format__(self, spec):
        return "<SymRatio>"

    def sx_concretize(self, m):
        from .conv import concretize

        return concretize(self.n, m) / concretize(self.d, m)
