"""Floats without the FP theory inside the exploration loop (DESIGN 2.2).

SymRatio = exact rational N/D of (symbolic) integers, produced by true division of ints.  The
places where the real code turns such a quotient back into an integer (`math.ceil(a / c)`,
`int(a / c)`, `round`, comparisons) are evaluated *exactly* on the rational; that this equals the
IEEE-754 double result for the operand ranges seen in the run is a conversion-site contract that
is recorded in ctx.float_sites and discharged by standalone QF_FP lemmas (harness/lemmas.py).
"""
from __future__ import annotations

from . import core
from .core import Unsupported
from .ints import SymBool, SymInt, _iv


def _rng(v):
    lo, hi = _iv(v)
    return (lo, hi)


def ratio(n, d):
    if isinstance(n, SymBool):
        n = n.as_int()
    if isinstance(d, SymBool):
        d = d.as_int()
    if isinstance(n, float) or isinstance(d, float):
        raise Unsupported("float operand in symbolic true division")
    if not isinstance(n, (int, SymInt)) or not isinstance(d, (int, SymInt)):
        return NotImplemented
    if isinstance(d, SymInt):
        if d.lo <= 0 <= d.hi and bool(d == 0):
            raise ZeroDivisionError("division by zero")
    elif d == 0:
        raise ZeroDivisionError("division by zero")
    return SymRatio(n, d)


def scale(x, c: float):
    """float constant * symbolic int as an exact rational.  The product is exact in IEEE double
    iff mantissa_bits(c) + bits(x) <= 53; the site is recorded with that verdict."""
    from fractions import Fraction

    if c != c or c in (float("inf"), float("-inf")):
        raise Unsupported("non-finite float constant")
    f = Fraction(c)
    lo, hi = _iv(x)
    mant = f.numerator.bit_length()
    xb = max(abs(lo), abs(hi)).bit_length()
    exact = mant + xb <= 53
    core.cur().float_sites.add(("mul-const", repr(c), (lo, hi), "exact" if exact else "inexact"))
    err = 0
    if not exact:
        # |fl(c*x) - c*x| <= half an ulp of the largest product: 2^(E-53) for |c*x| < 2^E
        E = int(abs(f) * max(abs(lo), abs(hi))).bit_length() + 1
        if E >= 52:
            raise Unsupported("float product beyond 2^52")
        err = Fraction(1, 1 << (53 - E))
    r = SymRatio(x * f.numerator, f.denominator, err)
    r.src = (x, f)
    return r


class SymRatio:
    """n/d with d != 0 on this path."""

    __slots__ = ("n", "d", "err", "src", "approx")

    def __init__(self, n, d, err=0):
        self.n = n
        self.d = d
        self.src = None  # (x, Fraction(c)) for a const*int product
        self.err = err  # 0, or a bound 1/2^k on |IEEE value - n/d| (inexact const*int product)
        self.approx = False  # True: exact real value of an expression IEEE would round (see arithmetic)

    def _exact_only(self, op):
        if self.err:
            raise Unsupported("%s of an inexact float product (only round() carries the error band)" % op)
        if self.approx and op in ("ceil", "floor", "trunc", "round"):
            raise Unsupported("%s of an approximated float expression" % op)

    def _site(self, op):
        core.cur().float_sites.add((op, _rng(self.n), _rng(self.d)))

    def _posd(self):
        """(n', d') with d' > 0."""
        d = self.d
        if isinstance(d, SymInt):
            if d.lo > 0:
                return self.n, d
            if d.hi < 0:
                return -self.n, -d
            if bool(d > 0):
                return self.n, d
            return -self.n, -d
        if d > 0:
            return self.n, d
        return -self.n, -d

    def __ceil__(self):
        self._exact_only("ceil")
        self._site("ceil")
        n, d = self._posd()
        return -((-n) // d)

    def __floor__(self):
        self._exact_only("floor")
        self._site("floor")
        n, d = self._posd()
        return n // d

    def __trunc__(self):
        self._exact_only("trunc")
        self._site("trunc")
        n, d = self._posd()
        q = n // d
        if isinstance(n, int) and n >= 0:
            return q
        if isinstance(n, SymInt) and n.lo >= 0:
            return q
        # truncation toward zero for negatives
        if bool(n < 0) and bool(n % d != 0):
            return q + 1
        return q

    def sx_int(self):
        return self.__trunc__()

    def __round__(self, nd=None):
        if nd is not None:
            raise Unsupported("round(x, n) on ratio")
        self._exact_only("round") if not self.err else None
        self._site("round")
        n, d = self._posd()
        if self.err:
            return self._round_banded(n, d)
        # round half to even
        q = (2 * n + d) // (2 * d)
        if bool((2 * n + d) % (2 * d) == 0) and bool(q % 2 != 0):
            return q - 1
        return q

    def _round_banded(self, n, d):
        """round(fl(c*x)) for an inexact product: a fresh integer r constrained by a band that
        contains the IEEE result.  With p/q a small rational next to c:
            |r - fl(c*x)| <= 1/2,  |fl(c*x) - c*x| <= err,  |c*x - (p/q)*x| <= |c - p/q| * max|x|
        hence |q*r - p*x| <= floor(q/2 + q*(err + |c - p/q|*max|x|))  (the left side is an integer)."""
        from fractions import Fraction
        from math import floor

        from .api import And

        ctx = core.cur()
        if self.src is None:
            raise Unsupported("banded round without a const*int source")
        x, f = self.src
        pq = f.limit_denominator(1 << 12)
        p, q = pq.numerator, pq.denominator
        lo, hi = _iv(x)
        B = floor(Fraction(q, 2) + q * (self.err + abs(f - pq) * max(abs(lo), abs(hi))))
        nlo, nhi = _iv(n)
        r = ctx.int("fp_round#", nlo // d - 1, -((-nhi) // d) + 1)
        ctx.assume(And(q * r - p * x <= B, p * x - q * r <= B), "round() band")
        core.cur().float_sites.add(("round-band", "%d/%d" % (p, q), B, (lo, hi)))
        return r

    def _cmp(self, o, op):
        self._exact_only("comparison")
        if isinstance(o, SymRatio):
            o._exact_only("comparison")
        if isinstance(o, SymRatio):
            n1, d1 = self._posd()
            n2, d2 = o._posd()
            l, r = n1 * d2, n2 * d1
        elif isinstance(o, (int, SymInt, SymBool)):
            n1, d1 = self._posd()
            l, r = n1, o * d1
        elif isinstance(o, float):
            if o.is_integer():
                return self._cmp(int(o), op)
            from fractions import Fraction

            f = Fraction(repr(o)) if self.approx else Fraction(o)
            n1, d1 = self._posd()
            l, r = n1 * f.denominator, f.numerator * d1
        else:
            return NotImplemented
        self._site("cmp-approx" if (self.approx or (isinstance(o, SymRatio) and o.approx)) else "cmp")
        if op == "lt":
            return l < r
        if op == "le":
            return l <= r
        if op == "gt":
            return l > r
        if op == "ge":
            return l >= r
        if op == "eq":
            return l == r
        return l != r

    def __lt__(self, o):
        return self._cmp(o, "lt")

    def __le__(self, o):
        return self._cmp(o, "le")

    def __gt__(self, o):
        return self._cmp(o, "gt")

    def __ge__(self, o):
        return self._cmp(o, "ge")

    def __eq__(self, o):
        r = self._cmp(o, "eq")
        return False if r is NotImplemented else r

    def __ne__(self, o):
        r = self._cmp(o, "ne")
        return True if r is NotImplemented else r

    def __hash__(self):
        raise Unsupported("hash of symbolic ratio")

    def __bool__(self):
        return bool(self.n != 0)

    def __float__(self):
        raise Unsupported("float() of symbolic ratio")

    # ---- arithmetic.  ratio (+-*/) int stays exact.  ratio (+-*/) ratio-or-float-constant yields an
    # *approximate real*: the exact rational value of an expression that IEEE would round at every
    # step.  Such a value may steer control flow (comparisons, zero tests - recorded as sites) but
    # can never be turned into an integer (ceil/floor/int/round raise Unsupported).
    @staticmethod
    def _parts(o):
        """-> (n, d, approx) of an operand, or None."""
        from fractions import Fraction

        if isinstance(o, SymRatio):
            if o.err:
                raise Unsupported("arithmetic on an inexact float product (only round() carries the error band)")
            return o.n, o.d, True
        if isinstance(o, SymBool):
            o = o.as_int()
        if isinstance(o, (int, SymInt)):
            return o, 1, False
        if isinstance(o, float):
            if o != o or o in (float("inf"), float("-inf")):
                raise Unsupported("non-finite float operand")
            # the decimal value of the literal (0.05 -> 1/20): in approximate-real mode IEEE rounding
            # is not modelled anyway, and the binary expansion would only add 55-bit constants
            f = Fraction(repr(o))
            return f.numerator, f.denominator, True
        return None

    def _mk(self, n, d, approx):
        r = SymRatio(n, d)
        r.approx = bool(approx or self.approx)
        return r

    def __truediv__(self, o):
        self._exact_only("division")
        p = SymRatio._parts(o)
        if p is None:
            return NotImplemented
        n, d, a = p
        if bool(n == 0):
            raise ZeroDivisionError("float division by zero")
        return self._mk(self.n * d, self.d * n, a)

    def __rtruediv__(self, o):
        self._exact_only("division")
        p = SymRatio._parts(o)
        if p is None:
            return NotImplemented
        n, d, a = p
        if bool(self.n == 0):
            raise ZeroDivisionError("float division by zero")
        return self._mk(n * self.d, d * self.n, True)

    def __mul__(self, o):
        self._exact_only("product")
        p = SymRatio._parts(o)
        if p is None:
            return NotImplemented
        n, d, a = p
        return self._mk(self.n * n, self.d * d, a)

    __rmul__ = __mul__

    def __add__(self, o):
        self._exact_only("sum")
        p = SymRatio._parts(o)
        if p is None:
            return NotImplemented
        n, d, a = p
        if isinstance(d, int) and isinstance(self.d, int) and d == self.d:
            return self._mk(self.n + n, self.d, a)
        return self._mk(self.n * d + n * self.d, self.d * d, a)

    __radd__ = __add__

    def __sub__(self, o):
        self._exact_only("difference")
        p = SymRatio._parts(o)
        if p is None:
            return NotImplemented
        n, d, a = p
        if isinstance(d, int) and isinstance(self.d, int) and d == self.d:
            return self._mk(self.n - n, self.d, a)
        return self._mk(self.n * d - n * self.d, self.d * d, a)

    def __rsub__(self, o):
        return (-self).__add__(o)

    def __neg__(self):
        self._exact_only("negation")
        return self._mk(-self.n, self.d, False)

    def __pow__(self, e, mod=None):
        if mod is not None or not isinstance(e, int) or e < 0 or e > 4:
            raise Unsupported("pow of symbolic ratio")
        r = self._mk(1, 1, False)
        for _ in range(e):
            r = r * self
        return r

    def __repr__(self):
        return "<SymRatio>"

    def __format__(self, spec):
        return "<SymRatio>"

    def sx_concretize(self, m):
        from .conv import concretize

        return concretize(self.n, m) / concretize(self.d, m)
