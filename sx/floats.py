"""Floats without the FP theory inside the exploration loop (DESIGN 2.2).

SymRatio = exact rational N/D of (symbolic) integers, produced by true division of ints.  The
places where the real code turns such a quotient back into an integer (`math.ceil(a / c)`,
`int(a / c)`, `round`, comparisons) are evaluated *exactly* on the rational; that this equals the
IEEE-754 double result for the operand ranges seen in the run is a conversion-site contract that
is recorded in ctx.float_sites and discharged by standalone QF_FP lemmas (harness/lemmas.py).
"""
from __future__ import annotations

from . import core
from .core import Unsupported
from .ints import SymBool, SymInt, _iv


def _rng(v):
    lo, hi = _iv(v)
    return (lo, hi)


def ratio(n, d):
    if isinstance(n, SymBool):
        n = n.as_int()
    if isinstance(d, SymBool):
        d = d.as_int()
    if isinstance(n, float) or isinstance(d, float):
        raise Unsupported("float operand in symbolic true division")
    if not isinstance(n, (int, SymInt)) or not isinstance(d, (int, SymInt)):
        return NotImplemented
    if isinstance(d, SymInt):
        if d.lo <= 0 <= d.hi and bool(d == 0):
            raise ZeroDivisionError("division by zero")
    elif d == 0:
        raise ZeroDivisionError("division by zero")
    return SymRatio(n, d)


def scale(x, c: float):
    """float constant * symbolic int as an exact rational.  The product is exact in IEEE double
    iff mantissa_bits(c) + bits(x) <= 53; the site is recorded with that verdict."""
    from fractions import Fraction

    if c != c or c in (float("inf"), float("-inf")):
        raise Unsupported("non-finite float constant")
    f = Fraction(c)
    lo, hi = _iv(x)
    mant = f.numerator.bit_length()
    xb = max(abs(lo), abs(hi)).bit_length()
    exact = mant + xb <= 53
    core.cur().float_sites.add(("mul-const", repr(c), (lo, hi), "exact" if exact else "inexact"))
    err = 0
    if not exact:
        # |fl(c*x) - c*x| <= half an ulp of the largest product: 2^(E-53) for |c*x| < 2^E
        E = int(abs(f) * max(abs(lo), abs(hi))).bit_length() + 1
        if E >= 52:
            raise Unsupported("float product beyond 2^52")
        err = Fraction(1, 1 << (53 - E))
    r = SymRatio(x * f.numerator, f.denominator, err)
    r.src = (x, f)
    return r


class SymRatio:
    """n/d with d != 0 on this path."""

    __slots__ = ("n", "d", "err", "src")

    def __init__(self, n, d, err=0):
        self.n = n
        self.d = d
        self.src = None  # (x, Fraction(c)) for a const*int product
        self.err = err  # 0, or a bound 1/2^k on |IEEE value - n/d| (inexact const*int product)

    def _exact_only(self, op):
        if self.err:
            raise Unsupported("%s of an inexact float product (only round() carries the error band)" % op)

    def _site(self, op):
        core.cur().float_sites.add((op, _rng(self.n), _rng(self.d)))

    def _posd(self):
        """(n', d') with d' > 0."""
        d = self.d
        if isinstance(d, SymInt):
            if d.lo > 0:
                return self.n, d
            if d.hi < 0:
                return -self.n, -d
            if bool(d > 0):
                return self.n, d
            return -self.n, -d
        if d > 0:
            return self.n, d
        return -self.n, -d

    def __ceil__(self):
        self._exact_only("ceil")
        self._site("ceil")
        n, d = self._posd()
        return -((-n) // d)

    def __floor__(self):
        self._exact_only("floor")
        self._site("floor")
        n, d = self._posd()
        return n // d

    def __trunc__(self):
        self._exact_only("trunc")
        self._site("trunc")
        n, d = self._posd()
        q = n // d
        if isinstance(n, int) and n >= 0:
            return q
        if isinstance(n, SymInt) and n.lo >= 0:
            return q
        # truncation toward zero for negatives
        if bool(n < 0) and bool(n % d != 0):
            return q + 1
        return q

    def sx_int(self):
        return self.__trunc__()

    def __round__(self, nd=None):
        if nd is not None:
            raise Unsupported("round(x, n) on ratio")
        self._site("round")
        n, d = self._posd()
        if self.err:
            return self._round_banded(n, d)
        # round half to even
        q = (2 * n + d) // (2 * d)
        if bool((2 * n + d) % (2 * d) == 0) and bool(q % 2 != 0):
            return q - 1
        return q

    def _round_banded(self, n, d):
        """round(fl(c*x)) for an inexact product: a fresh integer r constrained by a band that
        contains the IEEE result.  With p/q a small rational next to c:
            |r - fl(c*x)| <= 1/2,  |fl(c*x) - c*x| <= err,  |c*x - (p/q)*x| <= |c - p/q| * max|x|
        hence |q*r - p*x| <= floor(q/2 + q*(err + |c - p/q|*max|x|))  (the left side is an integer)."""
        from fractions import Fraction
        from math import floor

        from .api import And

        ctx = core.cur()
        if self.src is None:
            raise Unsupported("banded round without a const*int source")
        x, f = self.src
        pq = f.limit_denominator(1 << 12)
        p, q = pq.numerator, pq.denominator
        lo, hi = _iv(x)
        B = floor(Fraction(q, 2) + q * (self.err + abs(f - pq) * max(abs(lo), abs(hi))))
        nlo, nhi = _iv(n)
        r = ctx.int("fp_round#", nlo // d - 1, -((-nhi) // d) + 1)
        ctx.assume(And(q * r - p * x <= B, p * x - q * r <= B), "round() band")
        core.cur().float_sites.add(("round-band", "%d/%d" % (p, q), B, (lo, hi)))
        return r

    def _cmp(self, o, op):
        self._exact_only("comparison")
        if isinstance(o, SymRatio):
            o._exact_only("comparison")
        if isinstance(o, SymRatio):
            n1, d1 = self._posd()
            n2, d2 = o._posd()
            l, r = n1 * d2, n2 * d1
        elif isinstance(o, (int, SymInt, SymBool)):
            n1, d1 = self._posd()
            l, r = n1, o * d1
        elif isinstance(o, float):
            if o.is_integer():
                return self._cmp(int(o), op)
            from fractions import Fraction

            f = Fraction(o)
            n1, d1 = self._posd()
            l, r = n1 * f.denominator, f.numerator * d1
        else:
            return NotImplemented
        self._site("cmp")
        if op == "lt":
            return l < r
        if op == "le":
            return l <= r
        if op == "gt":
            return l > r
        if op == "ge":
            return l >= r
        if op == "eq":
            return l == r
        return l != r

    def __lt__(self, o):
        return self._cmp(o, "lt")

    def __le__(self, o):
        return self._cmp(o, "le")

    def __gt__(self, o):
        return self._cmp(o, "gt")

    def __ge__(self, o):
        return self._cmp(o, "ge")

    def __eq__(self, o):
        r = self._cmp(o, "eq")
        return False if r is NotImplemented else r

    def __ne__(self, o):
        r = self._cmp(o, "ne")
        return True if r is NotImplemented else r

    def __hash__(self):
        raise Unsupported("hash of symbolic ratio")

    def __bool__(self):
        return bool(self.n != 0)

    def __float__(self):
        raise Unsupported("float() of symbolic ratio")

    def __truediv__(self, o):
        self._exact_only("division")
        if isinstance(o, (int, SymInt)):
            if bool(o == 0):
                raise ZeroDivisionError("float division by zero")
            return SymRatio(self.n, self.d * o)
        raise Unsupported("ratio / %s" % type(o).__name__)

    def __mul__(self, o):
        self._exact_only("product")
        if isinstance(o, (int, SymInt)):
            return SymRatio(self.n * o, self.d)
        raise Unsupported("ratio * %s" % type(o).__name__)

    __rmul__ = __mul__

    def __add__(self, o):
        self._exact_only("sum")
        if isinstance(o, (int, SymInt)):
            return SymRatio(self.n + o * self.d, self.d)
        raise Unsupported("ratio + %s" % type(o).__name__)

    __radd__ = __add__

    def __sub__(self, o):
        self._exact_only("difference")
        if isinstance(o, (int, SymInt)):
            return SymRatio(self.n - o * self.d, self.d)
        if isinstance(o, SymRatio) and not o.err and isinstance(self.d, int) and isinstance(o.d, int) and self.d == o.d:
            return SymRatio(self.n - o.n, self.d)
        raise Unsupported("ratio - %s" % type(o).__name__)

    def __repr__(self):
        return "<SymRatio>"

    def __format__(self, spec):
        return "<SymRatio>"

    def sx_concretize(self, m):
        from .conv import concretize

        return concretize(self.n, m) / concretize(self.d, m)
