"""Replacements for C-level builtins / library functions that cannot accept proxies.

Each shim behaves exactly like the original on concrete arguments and implements the same
semantics on proxies.  They are injected per module by sx.loader (see DESIGN 2.1).
"""
from __future__ import annotations

import builtins
import re as _re
import struct as _struct

import z3

from . import core
from .bytes_ import BytesLike, SymBytes, byte_from_term, byte_term, items_of, mkbytes
from .core import Unsupported
from .ints import SymBool, SymInt, _ext, _mk, concretize_int, ite

# ------------------------------------------------------------------------------- struct
_FMT_RE = _re.compile(r"(\d*)([xcbB?hHiIlLqQnNefdspP])")
_SIZES = {"b": 1, "B": 1, "h": 2, "H": 2, "i": 4, "I": 4, "l": 4, "L": 4, "q": 8, "Q": 8, "x": 1, "?": 1}
_SIGNED = set("bhilq")


def _parse_fmt(fmt: str):
    if isinstance(fmt, bytes):
        fmt = fmt.decode()
    order = "@"
    if fmt and fmt[0] in "@=<>!":
        order = fmt[0]
        fmt = fmt[1:]
    if order == "@":
        raise Unsupported("native struct alignment")
    little = order == "<"
    out = []
    pos = 0
    fmt = fmt.replace(" ", "")
    while pos < len(fmt):
        m = _FMT_RE.match(fmt, pos)
        if not m:
            raise _struct.error("bad char in struct format")
        cnt, code = m.group(1), m.group(2)
        pos = m.end()
        if code == "s":
            out.append(("s", int(cnt) if cnt else 1))
        elif code in _SIZES:
            for _ in range(int(cnt) if cnt else 1):
                out.append((code, _SIZES[code]))
        else:
            raise Unsupported("struct format " + code)
    return little, out


def _any_sym(args):
    for a in args:
        if isinstance(a, (SymInt, SymBool, SymBytes)):
            return True
    return False


def sx_pack(fmt, *args):
    if not _any_sym(args):
        return _struct.pack(fmt, *args)
    little, items = _parse_fmt(fmt)
    nargs = sum(1 for c, _ in items if c != "x")
    if nargs != len(args):
        raise _struct.error("pack expected %d items for packing (got %d)" % (nargs, len(args)))
    out = []
    ai = 0
    for code, size in items:
        if code == "x":
            out.append(0)
            continue
        a = args[ai]
        ai += 1
        if code == "s":
            it = items_of(a)
            if it is None:
                raise _struct.error("argument for 's' must be a bytes object")
            it = (it + [0] * size)[:size]
            out.extend(it)
            continue
        if code == "?":
            a = 1 if a else 0
            out.append(a)
            continue
        if isinstance(a, SymBool):
            a = a.as_int()
        if isinstance(a, bool):
            a = int(a)
        if not isinstance(a, (int, SymInt)):
            raise _struct.error("required argument is not an integer")
        bits = 8 * size
        if code in _SIGNED:
            lo, hi = -(1 << (bits - 1)), (1 << (bits - 1)) - 1
        else:
            lo, hi = 0, (1 << bits) - 1
        if isinstance(a, int):
            if not (lo <= a <= hi):
                raise _struct.error("argument out of range")
            bs = list(a.to_bytes(size, "big", signed=code in _SIGNED))
        else:
            if a.lo < lo or a.hi > hi:
                ok = (a >= lo) & (a <= hi) if (a.lo < lo and a.hi > hi) else (a >= lo if a.lo < lo else a <= hi)
                if not ok:
                    raise _struct.error("argument out of range")
            w = max(bits + 1, a.t.size())
            t = _ext(a.t, w)
            bs = [byte_from_term(z3.Extract(bits - 1 - 8 * i, bits - 8 - 8 * i, t)) for i in range(size)]
        if little:
            bs.reverse()
        out.extend(bs)
    return mkbytes(out)


def _unpack_items(little, items, data_items):
    res = []
    pos = 0
    for code, size in items:
        chunk = data_items[pos : pos + size]
        pos += size
        if code == "x":
            continue
        if code == "s":
            res.append(mkbytes(chunk))
            continue
        if little:
            chunk = chunk[::-1]
        if all(isinstance(b, int) for b in chunk):
            v = int.from_bytes(bytes(chunk), "big", signed=code in _SIGNED)
            if code == "?":
                v = v != 0
            res.append(v)
            continue
        ts = [byte_term(b) for b in chunk]
        t = z3.Concat(*ts) if len(ts) > 1 else ts[0]
        bits = 8 * size
        if code == "?":
            res.append(SymBool.of(t != 0))
        elif code in _SIGNED:
            res.append(_mk(t, -(1 << (bits - 1)), (1 << (bits - 1)) - 1))
        else:
            res.append(_mk(z3.ZeroExt(1, t), 0, (1 << bits) - 1))
    return tuple(res)


def sx_calcsize(fmt):
    return _struct.calcsize(fmt)


def sx_unpack(fmt, data):
    if isinstance(data, BytesLike):
        return _struct.unpack(fmt, data)
    if not isinstance(data, SymBytes):
        raise TypeError("a bytes-like object is required, not '%s'" % type(data).__name__)
    little, items = _parse_fmt(fmt)
    size = sum(s for _, s in items)
    if len(data) != size:
        raise _struct.error("unpack requires a buffer of %d bytes" % size)
    return _unpack_items(little, items, data.items)


def sx_unpack_from(fmt, buffer, offset=0):
    if isinstance(buffer, BytesLike) and isinstance(offset, int):
        return _struct.unpack_from(fmt, buffer, offset)
    if not isinstance(buffer, (SymBytes,) + BytesLike):
        raise TypeError("a bytes-like object is required, not '%s'" % type(buffer).__name__)
    little, items = _parse_fmt(fmt)
    size = sum(s for _, s in items)
    n = len(buffer)
    if isinstance(offset, SymBool):
        offset = offset.as_int()
    if isinstance(offset, SymInt):
        if offset < 0:
            if offset < -n:
                raise _struct.error("offset out of range")
            offset = concretize_int(offset)
        else:
            if offset > n - size:
                raise _struct.error(
                    "unpack_from requires a buffer of at least %d bytes" % size
                )
            offset = concretize_int(offset)
    if offset < 0:
        if offset + n < 0:
            raise _struct.error("offset %d out of range for %d-byte buffer" % (offset, n))
        offset += n
    if n - offset < size:
        raise _struct.error(
            "unpack_from requires a buffer of at least %d bytes for unpacking %d bytes at offset %d"
            % (offset + size, size, offset)
        )
    data_items = items_of(buffer)[offset : offset + size]
    return _unpack_items(little, items, data_items)


class _StructShim:
    """Stands in for the `struct` module object."""

    error = _struct.error
    pack = staticmethod(sx_pack)
    unpack = staticmethod(sx_unpack)
    unpack_from = staticmethod(sx_unpack_from)
    calcsize = staticmethod(sx_calcsize)
    Struct = _struct.Struct


struct_shim = _StructShim()


# ------------------------------------------------------------------------------- builtins
class _ShimMeta(type):
    def __instancecheck__(cls, obj):
        return isinstance(obj, cls._real) or isinstance(obj, cls._proxy)

    def __subclasscheck__(cls, sub):
        return issubclass(sub, cls._real)

    def __getattr__(cls, name):
        return getattr(cls._real, name)

    def __call__(cls, *a, **k):
        return cls._construct(*a, **k)

    def __eq__(cls, o):
        return o is cls or o is cls._real

    def __hash__(cls):
        return hash(cls._real)

    def __repr__(cls):
        return repr(cls._real)

    def __or__(cls, o):
        return cls._real | o

    def __ror__(cls, o):
        return o | cls._real


class sx_bytes(metaclass=_ShimMeta):
    _real = builtins.bytes
    _proxy = SymBytes

    @staticmethod
    def _construct(*a, **k):
        if not a or k or len(a) > 1:
            return builtins.bytes(*a, **k)
        x = a[0]
        if isinstance(x, SymBytes):
            return x
        if isinstance(x, (builtins.bytes, bytearray, memoryview)):
            return builtins.bytes(x)
        if isinstance(x, (SymInt, SymBool)):
            return builtins.bytes(concretize_int(x))
        if isinstance(x, builtins.int):
            return builtins.bytes(x)
        if isinstance(x, builtins.str):
            raise TypeError("string argument without an encoding")
        m = getattr(type(x), "__bytes__", None)
        if m is not None:
            r = m(x)
            if not isinstance(r, (builtins.bytes, SymBytes)):
                raise TypeError("__bytes__ returned non-bytes")
            return r
        items = []
        for it in x:
            if isinstance(it, SymBool):
                it = it.as_int()
            if isinstance(it, SymInt):
                if it.lo < 0 or it.hi > 255:
                    if not ((it >= 0) & (it <= 255)):
                        raise ValueError("bytes must be in range(0, 256)")
                items.append(it)
            else:
                it = it.__index__()
                if not 0 <= it <= 255:
                    raise ValueError("bytes must be in range(0, 256)")
                items.append(it)
        return mkbytes(items)


class sx_int(metaclass=_ShimMeta):
    _real = builtins.int
    _proxy = (SymInt, SymBool)

    @staticmethod
    def _construct(*a, **k):
        if len(a) == 1 and not k:
            x = a[0]
            if isinstance(x, SymInt):
                return x
            if isinstance(x, SymBool):
                return x.as_int()
            m = getattr(x, "sx_int", None)
            if m is not None:
                return m()
        elif a and hasattr(a[0], "sx_int_base"):
            return a[0].sx_int_base(*a[1:], **k)
        return builtins.int(*a, **k)


class sx_str(metaclass=_ShimMeta):
    _real = builtins.str
    _proxy = ()

    @staticmethod
    def _construct(*a, **k):
        from .strs import SymStr, str_of

        if len(a) == 1 and not k:
            x = a[0]
            if isinstance(x, SymStr):
                return x
            if isinstance(x, (SymInt, SymBool)) or type(x).__name__ == "SymRatio":
                return str_of(x)
            m = getattr(type(x), "__str__", None)
            if m is not None and m is not object.__str__ and not isinstance(x, (builtins.str, builtins.int, builtins.float, builtins.bytes)):
                r = m(x)
                if isinstance(r, (builtins.str, SymStr)):
                    return r
        elif len(a) >= 2 and isinstance(a[0], SymBytes):
            return a[0].decode(*a[1:], **k)
        return builtins.str(*a, **k)


def _init_str_proxy():
    from .strs import SymStr

    sx_str._proxy = SymStr


def sx_len(x):
    m = getattr(x, "sx_len", None)
    if m is not None:
        return m()
    return builtins.len(x)


def sx_range(*args):
    if not _any_sym(args):
        return builtins.range(*args)
    return _sym_range(*args)


def _sym_range(*args):
    if len(args) == 1:
        start, stop, step = 0, args[0], 1
    elif len(args) == 2:
        start, stop = args
        step = 1
    else:
        start, stop, step = args
    if isinstance(step, (SymInt, SymBool)):
        step = concretize_int(step)
    if step == 0:
        raise ValueError("range() arg 3 must not be zero")
    i = start
    if step > 0:
        while i < stop:
            yield i
            i = i + step
    else:
        while i > stop:
            yield i
            i = i + step


def sx_min(*args, **kw):
    if kw or len(args) != 2:
        if len(args) == 1 and not kw:
            seq = list(args[0])
            if not seq:
                raise ValueError("min() iterable argument is empty")
            r = seq[0]
            for x in seq[1:]:
                r = sx_min(r, x)
            return r
        if len(args) > 2 and not kw:
            r = args[0]
            for x in args[1:]:
                r = sx_min(r, x)
            return r
        return builtins.min(*args, **kw)
    a, b = args
    if isinstance(a, (SymInt, SymBool)) or isinstance(b, (SymInt, SymBool)):
        if isinstance(a, (int, SymInt)) and isinstance(b, (int, SymInt)):
            return ite(b < a, b, a)
    return builtins.min(a, b)


def sx_max(*args, **kw):
    if kw or len(args) != 2:
        if len(args) == 1 and not kw:
            seq = list(args[0])
            if not seq:
                raise ValueError("max() iterable argument is empty")
            r = seq[0]
            for x in seq[1:]:
                r = sx_max(r, x)
            return r
        if len(args) > 2 and not kw:
            r = args[0]
            for x in args[1:]:
                r = sx_max(r, x)
            return r
        return builtins.max(*args, **kw)
    a, b = args
    if isinstance(a, (SymInt, SymBool)) or isinstance(b, (SymInt, SymBool)):
        if isinstance(a, (int, SymInt)) and isinstance(b, (int, SymInt)):
            return ite(b > a, b, a)
    return builtins.max(a, b)


def sx_join(sep, seq):
    """`sep.join(seq)` for a literal str/bytes separator (AST rewrite target)."""
    seq = list(seq)
    if isinstance(sep, builtins.bytes):
        if all(isinstance(x, BytesLike) for x in seq):
            return sep.join(seq)
        out = []
        for i, x in enumerate(seq):
            it = items_of(x)
            if it is None:
                raise TypeError("sequence item %d: expected a bytes-like object" % i)
            if i:
                out.extend(sep)
            out.extend(it)
        return mkbytes(out)
    if all(isinstance(x, builtins.str) for x in seq):
        return sep.join(seq)
    from .strs import str_join

    return str_join(sep, seq)


def sx_abs(x):
    return builtins.abs(x)


class _OsShim:
    """`os` whose urandom() returns symbolic bytes (an arbitrary value of its type)."""

    def __getattr__(self, name):
        import os

        return getattr(os, name)

    @staticmethod
    def urandom(n):
        import os

        if not core.active():
            return os.urandom(n)
        n = concretize_int(n)
        if n < 0:
            raise ValueError("negative argument not allowed")
        return core.cur().bytes("urandom#", n)


os_shim = _OsShim()


# ------------------------------------------------------------------------------- crc32c
class CrcUF:
    """crc32c as an uninterpreted-but-deterministic function (Ackermann expansion)."""

    def __init__(self):
        self.calls = []  # (SymBytes|bytes, result)

    def __call__(self, data):
        ctx = core.cur()
        if isinstance(data, BytesLike) and not ctx.opts.get("crc_uf_all", True):
            import google_crc32c

            return google_crc32c.value(bytes(data))
        n = len(self.calls)
        r = ctx.int("crc#", 0, 0xFFFFFFFF)
        for pd, pr in self.calls:
            if len(pd) != len(data):
                continue
            eq = pd == data if isinstance(pd, SymBytes) else (data == pd)
            if eq is True:
                ctx.assume(r == pr)
            elif eq is False:
                pass
            else:
                ctx.assume(z3.Implies(eq.t, (r == pr).t if isinstance(r == pr, SymBool) else z3.BoolVal(bool(r == pr))))
        self.calls.append((data, r))
        return r


# ------------------------------------------------------------------------------- AST rewrite targets
def sx_fstr(*parts):
    from .strs import SymStr, fstr_build

    # fast path: only builtin scalars / strings -> CPython formatting
    plain = True
    for p in parts:
        if isinstance(p, tuple) and not isinstance(p[0], (builtins.str, builtins.int, builtins.float, builtins.bytes, type(None))):
            plain = False
            break
    if plain:
        out = []
        for p in parts:
            if isinstance(p, tuple):
                v, conv, spec = p
                if conv == ord("r"):
                    v = repr(v)
                elif conv == ord("s"):
                    v = builtins.str(v)
                elif conv == ord("a"):
                    v = ascii(v)
                out.append(format(v, spec))
            else:
                out.append(p)
        return "".join(out)
    # objects are rendered through the str shim, so that a __str__ returning SymStr works
    return fstr_build(parts)


def sx_mkdict(pairs):
    from .containers import SymDict

    return SymDict(pairs)


def sx_mkset(items):
    from .containers import SymSet

    return SymSet(items)


def sx_percent(fmt, arg):
    from .strs import percent_build

    return percent_build(fmt, arg)


def rewrite_helpers():
    return {
        "sx_join": sx_join,
        "sx_fstr": sx_fstr,
        "sx_mkdict": sx_mkdict,
        "sx_mkset": sx_mkset,
        "sx_percent": sx_percent,
    }


_init_str_proxy()
