"""SymInt / SymBool: Python `int` / `bool` semantics on z3 bit-vectors with conservative intervals.

A SymInt is a signed bit-vector term `t` together with a static interval [lo, hi] that is known
to contain its value.  Every operation computes the *mathematical* (unbounded Python) result in a
width that provably holds the result interval, so no wrap-around can occur: the model is Python
`int`, the width is an implementation detail.
"""
from __future__ import annotations

import operator

import z3

from . import core
from .core import PathCut, Unsupported


def _bl(v: int) -> int:
    return v.bit_length() if v >= 0 else (-v - 1).bit_length()


def bits_for(lo: int, hi: int) -> int:
    return max(_bl(lo), _bl(hi)) + 1


MAX_WIDTH = 4096


def _ext(t, w: int):
    s = t.size()
    if s == w:
        return t
    if s > w:
        raise core.EngineError("cannot narrow by _ext")
    return z3.SignExt(w - s, t)


def _im(v):
    """Integer-sort mirror of an operand (see core.Ctx.lia): SymInt -> its mirror or None."""
    return v.i if isinstance(v, SymInt) else v


def _i2(f, a, b):
    x, y = _im(a), _im(b)
    if x is None or y is None:
        return None
    return f(x, y)


def _inot(i):
    return None if i is None else z3.Not(i)


def _mk(t, lo: int, hi: int, i=None):
    """Normalise a term known to lie in [lo,hi] (fits in its own width)."""
    if lo > hi:
        # statically empty interval: the path is infeasible, any value will do
        lo = hi = lo
    if lo == hi:
        return lo
    w = bits_for(lo, hi)
    if w > MAX_WIDTH:
        raise Unsupported("integer too wide (%d bits)" % w)
    s = t.size()
    if s > w:
        t = z3.Extract(w - 1, 0, t)
    elif s < w:
        t = z3.SignExt(w - s, t)
    t = z3.simplify(t)
    if z3.is_bv_value(t):
        return t.as_signed_long()
    return SymInt(t, lo, hi, i)


class SymBool:
    __slots__ = ("t", "i")

    def __init__(self, t, i=None):
        self.t = t
        self.i = i  # the same condition over integer-sort mirrors, or None

    @staticmethod
    def of(t, i=None):
        t = z3.simplify(t)
        if z3.is_true(t):
            return True
        if z3.is_false(t):
            return False
        return SymBool(t, i)

    def __bool__(self):
        return core.cur().branch(self.t, self.i)

    def as_int(self):
        i = None if self.i is None else z3.If(self.i, z3.IntVal(1), z3.IntVal(0))
        return SymInt(z3.If(self.t, z3.BitVecVal(1, 2), z3.BitVecVal(0, 2)), 0, 1, i)

    def _i2(self, f, o):
        if self.i is None or o.i is None:
            return None
        return f(self.i, o.i)

    def __hash__(self):
        raise Unsupported("hash of symbolic bool")

    def __repr__(self):
        return "<SymBool>"

    __str__ = __repr__

    def __format__(self, spec):
        return "<SymBool>"

    def __index__(self):
        return 1 if bool(self) else 0

    __int__ = __index__

    # logical (bitwise on bools)
    def __and__(self, o):
        if isinstance(o, SymBool):
            return SymBool.of(z3.And(self.t, o.t), self._i2(z3.And, o))
        if isinstance(o, bool):
            return self if o else False
        return self.as_int() & o

    __rand__ = __and__

    def __or__(self, o):
        if isinstance(o, SymBool):
            return SymBool.of(z3.Or(self.t, o.t), self._i2(z3.Or, o))
        if isinstance(o, bool):
            return True if o else self
        return self.as_int() | o

    __ror__ = __or__

    def __xor__(self, o):
        if isinstance(o, SymBool):
            return SymBool.of(z3.Xor(self.t, o.t), self._i2(z3.Xor, o))
        if isinstance(o, bool):
            return SymBool.of(z3.Not(self.t), _inot(self.i)) if o else self
        return self.as_int() ^ o

    __rxor__ = __xor__

    def __invert__(self):
        return ~self.as_int()

    def __eq__(self, o):
        if isinstance(o, SymBool):
            return SymBool.of(self.t == o.t, self._i2(operator.eq, o))
        if isinstance(o, bool):
            return self if o else SymBool.of(z3.Not(self.t), _inot(self.i))
        if isinstance(o, (int, SymInt)):
            return self.as_int() == o
        return False

    def __ne__(self, o):
        r = self.__eq__(o)
        if isinstance(r, SymBool):
            return SymBool.of(z3.Not(r.t), _inot(r.i))
        return not r

    # arithmetic: behave as int
    def __add__(self, o):
        return self.as_int() + o

    def __radd__(self, o):
        return o + self.as_int()

    def __sub__(self, o):
        return self.as_int() - o

    def __rsub__(self, o):
        return o - self.as_int()

    def __mul__(self, o):
        return self.as_int() * o

    def __rmul__(self, o):
        return o * self.as_int()

    def __lshift__(self, o):
        return self.as_int() << o

    def __rshift__(self, o):
        return self.as_int() >> o

    def __lt__(self, o):
        return self.as_int() < o

    def __le__(self, o):
        return self.as_int() <= o

    def __gt__(self, o):
        return self.as_int() > o

    def __ge__(self, o):
        return self.as_int() >= o

    def __neg__(self):
        return -self.as_int()


def bnot(b):
    if isinstance(b, SymBool):
        return SymBool.of(z3.Not(b.t), _inot(b.i))
    return not b


def _coerce(o):
    """-> (term|None, lo, hi) for int-like operands, or None."""
    if isinstance(o, SymInt):
        return o
    if isinstance(o, bool):
        return int(o)
    if isinstance(o, int):
        return o
    if isinstance(o, SymBool):
        return o.as_int()
    return None


def _term(v, w):
    if isinstance(v, SymInt):
        return _ext(v.t, w)
    return z3.BitVecVal(v, w)


def _iv(v):
    if isinstance(v, SymInt):
        return v.lo, v.hi
    return v, v


def _width(v):
    if isinstance(v, SymInt):
        return v.t.size()
    return bits_for(v, v)


class SymInt:
    __slots__ = ("t", "lo", "hi", "i")

    def __init__(self, t, lo, hi, i=None):
        self.t = t
        self.lo = lo
        self.hi = hi
        self.i = i  # integer-sort (LIA) mirror of the same mathematical value, or None

    @staticmethod
    def var(name, lo, hi, ctx=None):
        if lo > hi:
            raise core.EngineError("empty range for " + name)
        if lo == hi:
            return lo
        if lo >= 0:
            w = max(1, hi.bit_length())
            v = z3.BitVec(name, w)
            t = z3.ZeroExt(1, v)
            full_hi = (1 << w) - 1
        else:
            w = bits_for(lo, hi)
            v = z3.BitVec(name, w)
            t = v
            full_hi = (1 << (w - 1)) - 1
        ctx = ctx or core.cur()
        x = SymInt(t, lo, hi, ctx.lia_var(name, v, lo, hi))
        if lo >= 0:
            if hi != full_hi:
                ctx.assume(z3.ULE(v, z3.BitVecVal(hi, w)))
            if lo > 0:
                ctx.assume(z3.UGE(v, z3.BitVecVal(lo, w)))
        else:
            if hi != full_hi:
                ctx.assume(v <= hi)
            if lo != -(1 << (w - 1)):
                ctx.assume(v >= lo)
        return x

    # ------------------------------------------------------------- conversions
    def __bool__(self):
        if self.lo > 0 or self.hi < 0:
            return True
        return core.cur().branch(self.t != 0, None if self.i is None else self.i != 0)

    def __index__(self):
        return concretize_int(self)

    def __int__(self):
        return concretize_int(self)

    def __hash__(self):
        raise Unsupported("hash of symbolic int (use SymDict/SymSet)")

    def __copy__(self):
        return self

    def __deepcopy__(self, memo):
        return self

    def __repr__(self):
        return "<SymInt %d..%d>" % (self.lo, self.hi)

    __str__ = __repr__

    def __format__(self, spec):
        return "<SymInt>"

    def __round__(self, n=None):
        return self

    def __trunc__(self):
        return self

    def __floor__(self):
        return self

    def __ceil__(self):
        return self

    def __float__(self):
        raise Unsupported("float() of symbolic int")

    def __pos__(self):
        return self

    def bit_length(self):
        raise Unsupported("bit_length of symbolic int")

    # ------------------------------------------------------------- arithmetic
    def __add__(self, o):
        o = _coerce(o)
        if o is None:
            return NotImplemented
        olo, ohi = _iv(o)
        lo, hi = self.lo + olo, self.hi + ohi
        w = max(bits_for(lo, hi), self.t.size(), _width(o))
        return _mk(_ext(self.t, w) + _term(o, w), lo, hi, _i2(operator.add, self, o))

    __radd__ = __add__

    def __neg__(self):
        lo, hi = -self.hi, -self.lo
        w = bits_for(min(lo, self.lo), max(hi, self.hi))
        return _mk(-_ext(self.t, w), lo, hi, None if self.i is None else -self.i)

    def __sub__(self, o):
        o = _coerce(o)
        if o is None:
            return NotImplemented
        olo, ohi = _iv(o)
        lo, hi = self.lo - ohi, self.hi - olo
        w = max(bits_for(lo, hi), self.t.size(), _width(o))
        return _mk(_ext(self.t, w) - _term(o, w), lo, hi, _i2(operator.sub, self, o))

    def __rsub__(self, o):
        o = _coerce(o)
        if o is None:
            return NotImplemented
        olo, ohi = _iv(o)
        lo, hi = olo - self.hi, ohi - self.lo
        w = max(bits_for(lo, hi), self.t.size(), _width(o))
        return _mk(_term(o, w) - _ext(self.t, w), lo, hi, _i2(operator.sub, o, self))

    def __mul__(self, o):
        if isinstance(o, float):
            from .floats import scale

            return scale(self, o)
        if type(o).__name__ == "SymRatio":
            return o.__mul__(self)
        o = _coerce(o)
        if o is None:
            return NotImplemented
        if isinstance(o, int):
            if o == 0:
                return 0
            if o == 1:
                return self
        else:
            core.cur().note("symbolic*symbolic multiplication")
        olo, ohi = _iv(o)
        c = [self.lo * olo, self.lo * ohi, self.hi * olo, self.hi * ohi]
        lo, hi = min(c), max(c)
        w = max(bits_for(lo, hi), self.t.size(), _width(o))
        return _mk(_ext(self.t, w) * _term(o, w), lo, hi, _i2(operator.mul, self, o))

    __rmul__ = __mul__

    def __abs__(self):
        if self.lo >= 0:
            return self
        if self.hi <= 0:
            return -self
        hi = max(-self.lo, self.hi)
        w = bits_for(-hi, hi)
        t = _ext(self.t, w)
        return _mk(z3.If(t < 0, -t, t), 0, hi, None if self.i is None else z3.If(self.i < 0, -self.i, self.i))

    def __pow__(self, e, mod=None):
        if mod is not None or not isinstance(e, int) or e < 0 or e > 8:
            raise Unsupported("pow with symbolic operand")
        r = 1
        for _ in range(e):
            r = r * self
        return r

    def __rpow__(self, b):
        # b ** self, only for b == 2 and small exponents
        if b == 2:
            return 1 << self
        raise Unsupported("pow with symbolic exponent")

    # floor division / modulo (Python semantics)
    @staticmethod
    def _divmod(a, b):
        """a, b: SymInt|int, at least one symbolic.  Returns (q, r)."""
        if isinstance(b, int):
            if b == 0:
                raise ZeroDivisionError("integer division or modulo by zero")
        else:
            if b.lo <= 0 <= b.hi:
                if core.cur().branch(b.t == 0, None if b.i is None else b.i == 0):
                    raise ZeroDivisionError("integer division or modulo by zero")
        alo, ahi = _iv(a)
        blo, bhi = _iv(b)
        if isinstance(b, int) and b > 0:
            qlo, qhi = alo // b, ahi // b
            if alo >= 0 and ahi < b:
                return 0, a
            if qlo == qhi:
                rlo, rhi = alo - qlo * b, ahi - qlo * b
            else:
                rlo, rhi = 0, b - 1
        else:
            m = max(abs(alo), abs(ahi))
            qlo, qhi = -m - 1, m
            bm = max(abs(blo), abs(bhi))
            rlo = -(bm - 1) if blo < 0 else 0
            rhi = (bm - 1) if bhi > 0 else 0
        w = max(_width(a), _width(b), bits_for(qlo, qhi)) + 1
        ta, tb = _term(a, w), _term(b, w)
        if isinstance(b, int) and b > 0 and (b & (b - 1)) == 0:
            k = b.bit_length() - 1
            q = ta >> k
            r = ta & z3.BitVecVal(b - 1, w)
        elif alo >= 0 and blo > 0:
            q = z3.UDiv(ta, tb)
            r = z3.URem(ta, tb)
        else:
            # z3 `/` on signed bit-vectors truncates towards zero; bvsmod follows the divisor's sign
            r = ta % tb  # bvsmod == Python %
            q0 = ta / tb  # bvsdiv
            r0 = z3.SRem(ta, tb)
            q = z3.If(z3.And(r0 != 0, (r0 < 0) != (tb < 0)), q0 - 1, q0)
        qi = ri = None
        ai, bi = _im(a), _im(b)
        if ai is not None and bi is not None and blo > 0:
            # z3 integer div/mod with a positive divisor are floor division / non-negative remainder
            if isinstance(ai, int):
                ai = z3.IntVal(ai)
            qi, ri = ai / bi, ai % bi
        return _mk(q, qlo, qhi, qi), _mk(r, rlo, rhi, ri)

    def __floordiv__(self, o):
        o = _coerce(o)
        if o is None:
            return NotImplemented
        return SymInt._divmod(self, o)[0]

    def __rfloordiv__(self, o):
        o = _coerce(o)
        if o is None:
            return NotImplemented
        return SymInt._divmod(o, self)[0]

    def __mod__(self, o):
        o = _coerce(o)
        if o is None:
            return NotImplemented
        return SymInt._divmod(self, o)[1]

    def __rmod__(self, o):
        o = _coerce(o)
        if o is None:
            return NotImplemented
        return SymInt._divmod(o, self)[1]

    def __divmod__(self, o):
        o = _coerce(o)
        if o is None:
            return NotImplemented
        return SymInt._divmod(self, o)

    def __rdivmod__(self, o):
        o = _coerce(o)
        if o is None:
            return NotImplemented
        return SymInt._divmod(o, self)

    def __truediv__(self, o):
        from .floats import ratio

        return ratio(self, o)

    def __rtruediv__(self, o):
        from .floats import ratio

        return ratio(o, self)

    # ------------------------------------------------------------- bit operations
    def __and__(self, o):
        o = _coerce(o)
        if o is None:
            return NotImplemented
        olo, ohi = _iv(o)
        w = max(self.t.size(), _width(o))
        if self.lo >= 0 and olo >= 0:
            lo, hi = 0, min(self.hi, ohi)
        elif self.lo >= 0:
            lo, hi = 0, self.hi
        elif olo >= 0:
            lo, hi = 0, ohi
        else:
            lo, hi = -(1 << (w - 1)), (1 << (w - 1)) - 1
        i = None
        if self.i is not None and isinstance(o, int) and o > 0 and (o & (o + 1)) == 0:
            i = self.i % (o + 1)  # x & (2^k - 1) == x mod 2^k for every integer x
        return _mk(_ext(self.t, w) & _term(o, w), lo, hi, i)

    __rand__ = __and__

    def __or__(self, o):
        o = _coerce(o)
        if o is None:
            return NotImplemented
        olo, ohi = _iv(o)
        w = max(self.t.size(), _width(o))
        if self.lo >= 0 and olo >= 0:
            lo, hi = max(self.lo, olo), (1 << max(_bl(self.hi), _bl(ohi))) - 1
        else:
            lo, hi = -(1 << (w - 1)), (1 << (w - 1)) - 1
        return _mk(_ext(self.t, w) | _term(o, w), lo, hi)

    __ror__ = __or__

    def __xor__(self, o):
        o = _coerce(o)
        if o is None:
            return NotImplemented
        olo, ohi = _iv(o)
        w = max(self.t.size(), _width(o))
        if self.lo >= 0 and olo >= 0:
            lo, hi = 0, (1 << max(_bl(self.hi), _bl(ohi))) - 1
        else:
            lo, hi = -(1 << (w - 1)), (1 << (w - 1)) - 1
        return _mk(_ext(self.t, w) ^ _term(o, w), lo, hi)

    __rxor__ = __xor__

    def __invert__(self):
        return _mk(~self.t, -self.hi - 1, -self.lo - 1, None if self.i is None else -self.i - 1)

    @staticmethod
    def _shift_amount(s):
        """Validate a shift amount; returns (s, slo, shi) with s >= 0 on this path."""
        if isinstance(s, int):
            if s < 0:
                raise ValueError("negative shift count")
            return s, s, s
        if s.lo < 0:
            if core.cur().branch(s.t < 0, None if s.i is None else s.i < 0):
                raise ValueError("negative shift count")
        return s, max(0, s.lo), s.hi

    def __lshift__(self, o):
        o = _coerce(o)
        if o is None:
            return NotImplemented
        return SymInt._shl(self, o)

    def __rlshift__(self, o):
        o = _coerce(o)
        if o is None:
            return NotImplemented
        return SymInt._shl(o, self)

    @staticmethod
    def _shl(a, s):
        s, slo, shi = SymInt._shift_amount(s)
        if isinstance(a, int) and a == 0:
            return 0
        if shi > 1024:
            s = concretize_int(s)
            slo = shi = s
        alo, ahi = _iv(a)
        lo = alo << (shi if alo < 0 else slo)
        hi = ahi << (shi if ahi > 0 else slo)
        w = max(bits_for(lo, hi), _width(a), _width(s), _bl(shi) + 2)
        i = None
        if isinstance(s, int) and _im(a) is not None:
            i = _im(a) * (1 << s)
        return _mk(_term(a, w) << _term(s, w), lo, hi, i)

    def __rshift__(self, o):
        o = _coerce(o)
        if o is None:
            return NotImplemented
        return SymInt._shr(self, o)

    def __rrshift__(self, o):
        o = _coerce(o)
        if o is None:
            return NotImplemented
        return SymInt._shr(o, self)

    @staticmethod
    def _shr(a, s):
        s, slo, shi = SymInt._shift_amount(s)
        alo, ahi = _iv(a)
        lo = alo >> (slo if alo < 0 else shi)
        hi = ahi >> (shi if ahi < 0 else slo)
        w = max(_width(a), _width(s))
        i = None
        if isinstance(s, int) and isinstance(a, SymInt) and a.i is not None:
            i = a.i / (1 << s)  # floor, as Python's >>
        return _mk(_term(a, w) >> _term(s, w), lo, hi, i)

    # ------------------------------------------------------------- comparisons
    def _cmp(self, o, op):
        o = _coerce(o)
        if o is None:
            return NotImplemented
        olo, ohi = _iv(o)
        if op == "lt":
            if self.hi < olo:
                return True
            if self.lo >= ohi:
                return False
        elif op == "le":
            if self.hi <= olo:
                return True
            if self.lo > ohi:
                return False
        elif op == "gt":
            if self.lo > ohi:
                return True
            if self.hi <= olo:
                return False
        elif op == "ge":
            if self.lo >= ohi:
                return True
            if self.hi < olo:
                return False
        w = max(self.t.size(), _width(o))
        a, b = _ext(self.t, w), _term(o, w)
        if op == "lt":
            return SymBool.of(a < b, _i2(operator.lt, self, o))
        if op == "le":
            return SymBool.of(a <= b, _i2(operator.le, self, o))
        if op == "gt":
            return SymBool.of(a > b, _i2(operator.gt, self, o))
        return SymBool.of(a >= b, _i2(operator.ge, self, o))

    def __lt__(self, o):
        return self._cmp(o, "lt")

    def __le__(self, o):
        return self._cmp(o, "le")

    def __gt__(self, o):
        return self._cmp(o, "gt")

    def __ge__(self, o):
        return self._cmp(o, "ge")

    def __eq__(self, o):
        c = _coerce(o)
        if c is None:
            if isinstance(o, float):
                if o != o or o in (float("inf"), float("-inf")) or not o.is_integer():
                    return False
                c = int(o)
            elif type(o).__name__ == "SymRatio":
                return o.__eq__(self)
            else:
                return False
        olo, ohi = _iv(c)
        if self.hi < olo or self.lo > ohi:
            return False
        w = max(self.t.size(), _width(c))
        return SymBool.of(_ext(self.t, w) == _term(c, w), _i2(operator.eq, self, c))

    def __ne__(self, o):
        r = self.__eq__(o)
        if isinstance(r, SymBool):
            return SymBool.of(z3.Not(r.t), _inot(r.i))
        return not r


MAX_CONCRETIZE = 600


def concretize_int(x) -> int:
    """Fork over the feasible values of x (each value is a recorded decision)."""
    if isinstance(x, bool):
        return int(x)
    if isinstance(x, int):
        return x
    if isinstance(x, SymBool):
        return 1 if bool(x) else 0
    ctx = core.cur()
    n = 0
    while True:
        v = ctx.pick_value(x.t)
        if ctx.branch(x.t == z3.BitVecVal(v, x.t.size()), None if x.i is None else x.i == v):
            return v
        n += 1
        if n > ctx.opts.get("max_concretize", MAX_CONCRETIZE):
            raise PathCut("concretize")


def ite(c, a, b):
    """If-then-else without forking (harness helper / min / max)."""
    if isinstance(c, bool):
        return a if c else b
    if not isinstance(c, SymBool):
        return a if c else b
    a2, b2 = _coerce(a), _coerce(b)
    if a2 is None or b2 is None:
        return a if bool(c) else b
    alo, ahi = _iv(a2)
    blo, bhi = _iv(b2)
    lo, hi = min(alo, blo), max(ahi, bhi)
    w = max(bits_for(lo, hi), _width(a2), _width(b2))
    i = None
    ai, bi = _im(a2), _im(b2)
    if c.i is not None and ai is not None and bi is not None:
        i = z3.If(c.i, ai if not isinstance(ai, int) else z3.IntVal(ai), bi if not isinstance(bi, int) else z3.IntVal(bi))
    return _mk(z3.If(c.t, _term(a2, w), _term(b2, w)), lo, hi, i)
