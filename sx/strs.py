"""SymStr: strings with symbolic characters and lazy atoms (DESIGN 2.2).  Built incrementally."""
from __future__ import annotations

import z3

from . import core
from .bytes_ import SymBytes, mkbytes
from .core import Unsupported
from .ints import SymBool, SymInt, _mk, concretize_int


def _decode_utf8_items(items):
    """Real UTF-8 decoder over (possibly symbolic) bytes; forks on lead-byte class.

    Returns a list of code points (int | SymInt); raises UnicodeDecodeError where CPython does.
    """
    out = []
    i = 0
    n = len(items)

    def err(pos, why):
        raise UnicodeDecodeError("utf-8", b"?", pos, pos + 1, why)

    while i < n:
        b0 = items[i]
        if b0 < 0x80:
            out.append(b0)
            i += 1
            continue
        if b0 < 0xC2:
            err(i, "invalid start byte")
        if b0 < 0xE0:
            if i + 1 >= n:
                err(i, "unexpected end of data")
            b1 = items[i + 1]
            if not ((b1 & 0xC0) == 0x80):
                err(i, "invalid continuation byte")
            out.append(((b0 & 0x1F) << 6) | (b1 & 0x3F))
            i += 2
            continue
        if b0 < 0xF0:
            if i + 1 >= n:
                err(i, "unexpected end of data")
            b1 = items[i + 1]
            if not ((b1 & 0xC0) == 0x80):
                err(i, "invalid continuation byte")
            if b0 == 0xE0 and b1 < 0xA0:
                err(i, "invalid continuation byte")
            if b0 == 0xED and b1 > 0x9F:
                err(i, "invalid continuation byte")
            if i + 2 >= n:
                err(i, "unexpected end of data")
            b2 = items[i + 2]
            if not ((b2 & 0xC0) == 0x80):
                err(i, "invalid continuation byte")
            out.append(((b0 & 0x0F) << 12) | ((b1 & 0x3F) << 6) | (b2 & 0x3F))
            i += 3
            continue
        if b0 < 0xF5:
            if i + 1 >= n:
                err(i, "unexpected end of data")
            b1 = items[i + 1]
            if not ((b1 & 0xC0) == 0x80):
                err(i, "invalid continuation byte")
            if b0 == 0xF0 and b1 < 0x90:
                err(i, "invalid continuation byte")
            if b0 == 0xF4 and b1 > 0x8F:
                err(i, "invalid continuation byte")
            if i + 2 >= n:
                err(i, "unexpected end of data")
            b2 = items[i + 2]
            if not ((b2 & 0xC0) == 0x80):
                err(i, "invalid continuation byte")
            if i + 3 >= n:
                err(i, "unexpected end of data")
            b3 = items[i + 3]
            if not ((b3 & 0xC0) == 0x80):
                err(i, "invalid continuation byte")
            out.append(((b0 & 0x07) << 18) | ((b1 & 0x3F) << 12) | ((b2 & 0x3F) << 6) | (b3 & 0x3F))
            i += 4
            continue
        err(i, "invalid start byte")
    return out


def decode_bytes(b, encoding="utf-8", errors="strict"):
    enc = encoding.lower().replace("-", "").replace("_", "")
    if errors != "strict":
        raise Unsupported("decode errors=" + errors)
    items = b.items if isinstance(b, SymBytes) else list(b)
    if enc in ("utf8",):
        cps = _decode_utf8_items(items)
    elif enc in ("ascii",):
        cps = []
        for i, x in enumerate(items):
            if not (x < 0x80):
                raise UnicodeDecodeError("ascii", b"?", i, i + 1, "ordinal not in range(128)")
            cps.append(x)
    elif enc in ("latin1", "iso88591"):
        cps = list(items)
    else:
        raise Unsupported("decode " + encoding)
    return mkstr(cps)


def encode_cps(cps, encoding="utf-8"):
    enc = encoding.lower().replace("-", "").replace("_", "")
    out = []
    for i, c in enumerate(cps):
        if enc == "ascii":
            if not (c < 0x80):
                raise UnicodeEncodeError("ascii", "?", i, i + 1, "ordinal not in range(128)")
            out.append(c)
            continue
        if enc != "utf8":
            raise Unsupported("encode " + encoding)
        if c < 0x80:
            out.append(c)
        elif c < 0x800:
            out.append(0xC0 | (c >> 6))
            out.append(0x80 | (c & 0x3F))
        elif c < 0x10000:
            if (c >= 0xD800) & (c <= 0xDFFF) if isinstance(c, SymInt) else (0xD800 <= c <= 0xDFFF):
                raise UnicodeEncodeError("utf-8", "?", i, i + 1, "surrogates not allowed")
            out.append(0xE0 | (c >> 12))
            out.append(0x80 | ((c >> 6) & 0x3F))
            out.append(0x80 | (c & 0x3F))
        else:
            out.append(0xF0 | (c >> 18))
            out.append(0x80 | ((c >> 12) & 0x3F))
            out.append(0x80 | ((c >> 6) & 0x3F))
            out.append(0x80 | (c & 0x3F))
    return mkbytes(out)


def mkstr(cps):
    """str if all code points are concrete, else SymStr."""
    for c in cps:
        if not isinstance(c, int):
            return SymStr(list(cps))
    return "".join(chr(c) for c in cps)


def cps_of(s):
    if isinstance(s, SymStr):
        return s.cps
    if isinstance(s, str):
        return [ord(c) for c in s]
    return None


class SymStr:
    """String of concrete length; each item a code point (int | SymInt)."""

    __slots__ = ("cps",)

    def __init__(self, cps):
        self.cps = cps

    def __len__(self):
        return len(self.cps)

    def __bool__(self):
        return len(self.cps) > 0

    def __hash__(self):
        raise Unsupported("hash of symbolic str")

    def __repr__(self):
        return "<SymStr len=%d>" % len(self.cps)

    __str__ = __repr__

    def __format__(self, spec):
        return repr(self)

    def __iter__(self):
        for c in self.cps:
            yield mkstr([c])

    def __getitem__(self, i):
        from .bytes_ import clamp_index

        n = len(self.cps)
        if isinstance(i, slice):
            if i.step not in (None, 1):
                return mkstr(self.cps[i])
            start = clamp_index(i.start, n, 0)
            stop = clamp_index(i.stop, n, n)
            return mkstr(self.cps[start:stop])
        if isinstance(i, (SymInt, SymBool)):
            i = concretize_int(i)
        return mkstr([self.cps[i]])

    def __add__(self, o):
        oc = cps_of(o)
        if oc is None:
            return NotImplemented
        return mkstr(self.cps + oc)

    def __radd__(self, o):
        oc = cps_of(o)
        if oc is None:
            return NotImplemented
        return mkstr(oc + self.cps)

    def __eq__(self, o):
        oc = cps_of(o)
        if oc is None:
            return False
        if len(oc) != len(self.cps):
            return False
        r = True
        for a, b in zip(self.cps, oc):
            e = a == b
            if e is False:
                return False
            if e is True:
                continue
            r = e if r is True else (r & e)
        return r

    def __ne__(self, o):
        r = self.__eq__(o)
        if isinstance(r, SymBool):
            return SymBool.of(z3.Not(r.t))
        return not r

    def encode(self, encoding="utf-8", errors="strict"):
        return encode_cps(self.cps, encoding)

    def _map_case(self, lo, hi, delta):
        from .ints import ite

        out = []
        for c in self.cps:
            if isinstance(c, int):
                m = chr(c).upper() if delta < 0 else chr(c).lower()
                out.extend(ord(x) for x in m)
                continue
            if c.hi >= 0x80:
                raise Unsupported("case mapping of a possibly non-ASCII symbolic character")
            out.append(ite((c >= lo) & (c <= hi), c + delta, c))
        return mkstr(out)

    def upper(self):
        return self._map_case(0x61, 0x7A, -32)

    def lower(self):
        return self._map_case(0x41, 0x5A, 32)

    def sx_concretize(self, m):
        from .conv import concretize

        return "".join(chr(concretize(c, m)) for c in self.cps)


def str_join(sep, seq):
    out = []
    sc = cps_of(sep)
    for i, x in enumerate(seq):
        xc = cps_of(x)
        if xc is None:
            raise TypeError("sequence item %d: expected str instance" % i)
        if i:
            out.extend(sc)
        out.extend(xc)
    return mkstr(out)


def fstr_build(parts):
    """f-string with symbolic parts.  Placeholder rendering until the SDP work needs content."""
    out = []
    for p in parts:
        if isinstance(p, tuple):
            v, conv, spec = p
            if isinstance(v, SymStr) and not spec:
                out.extend(v.cps)
            elif isinstance(v, (SymInt, SymBool, SymBytes)) or type(v).__name__ == "SymRatio":
                out.extend(ord(c) for c in "<sym>")
            else:
                out.extend(ord(c) for c in format(v, spec))
        else:
            out.extend(ord(c) for c in p)
    return mkstr(out)


def percent_build(fmt, arg):
    try:
        return fmt % arg
    except TypeError:
        return fmt


def str_of(x):
    """str(x) for a symbolic number: decimal rendering (lazy atom once C09 needs it)."""
    raise Unsupported("str() of a symbolic number")
