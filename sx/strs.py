"""SymStr: strings whose items are concrete characters, symbolic code points, or lazy atoms.

`DecAtom(x)` is "the decimal rendering of the non-negative (symbolic) integer x": it is never
expanded to digits; `int()` of a token that consists of exactly that atom returns x.  Everything a
parser does with such strings (split, strip, startswith, `in`, slicing off a literal prefix,
equality, the small regular expressions of aiortc.sdp) is implemented item-wise and forks only
where a *symbolic character* could equal a delimiter.  (DESIGN 2.2; probe: eager digits made an
ICE-candidate round trip run > 10 min, atoms: 4 paths.)
"""
from __future__ import annotations

import z3

from . import core
from .bytes_ import SymBytes, mkbytes
from .core import Unsupported
from .ints import SymBool, SymInt, concretize_int, ite


class DecAtom:
    """Decimal rendering of a non-negative integer (int | SymInt)."""

    __slots__ = ("x",)

    def __init__(self, x):
        self.x = x

    def __repr__(self):
        return "<dec %r>" % (self.x,)


def _is_char(it):
    return isinstance(it, (int, SymInt))


def _may_be(c, lo, hi):
    """Could char item c lie in [lo,hi]?  -> True / False / SymBool."""
    if isinstance(c, int):
        return lo <= c <= hi
    if c.hi < lo or c.lo > hi:
        return False
    if c.lo >= lo and c.hi <= hi:
        return True
    return (c >= lo) & (c <= hi)


def _char_eq(c, k: int):
    if isinstance(c, int):
        return c == k
    if c.hi < k or c.lo > k:
        return False
    return c == k


# ------------------------------------------------------------------------------- UTF-8
def _decode_utf8_items(items):
    """Real UTF-8 decoder over (possibly symbolic) bytes; forks on lead-byte class."""
    out = []
    i = 0
    n = len(items)

    def err(pos, why):
        raise UnicodeDecodeError("utf-8", b"?", pos, pos + 1, why)

    while i < n:
        b0 = items[i]
        if b0 < 0x80:
            out.append(b0)
            i += 1
            continue
        if b0 < 0xC2:
            err(i, "invalid start byte")
        if b0 < 0xE0:
            if i + 1 >= n:
                err(i, "unexpected end of data")
            b1 = items[i + 1]
            if not ((b1 & 0xC0) == 0x80):
                err(i, "invalid continuation byte")
            out.append(((b0 & 0x1F) << 6) | (b1 & 0x3F))
            i += 2
            continue
        if b0 < 0xF0:
            if i + 1 >= n:
                err(i, "unexpected end of data")
            b1 = items[i + 1]
            if not ((b1 & 0xC0) == 0x80):
                err(i, "invalid continuation byte")
            if b0 == 0xE0 and b1 < 0xA0:
                err(i, "invalid continuation byte")
            if b0 == 0xED and b1 > 0x9F:
                err(i, "invalid continuation byte")
            if i + 2 >= n:
                err(i, "unexpected end of data")
            b2 = items[i + 2]
            if not ((b2 & 0xC0) == 0x80):
                err(i, "invalid continuation byte")
            out.append(((b0 & 0x0F) << 12) | ((b1 & 0x3F) << 6) | (b2 & 0x3F))
            i += 3
            continue
        if b0 < 0xF5:
            if i + 1 >= n:
                err(i, "unexpected end of data")
            b1 = items[i + 1]
            if not ((b1 & 0xC0) == 0x80):
                err(i, "invalid continuation byte")
            if b0 == 0xF0 and b1 < 0x90:
                err(i, "invalid continuation byte")
            if b0 == 0xF4 and b1 > 0x8F:
                err(i, "invalid continuation byte")
            if i + 2 >= n:
                err(i, "unexpected end of data")
            b2 = items[i + 2]
            if not ((b2 & 0xC0) == 0x80):
                err(i, "invalid continuation byte")
            if i + 3 >= n:
                err(i, "unexpected end of data")
            b3 = items[i + 3]
            if not ((b3 & 0xC0) == 0x80):
                err(i, "invalid continuation byte")
            out.append(((b0 & 0x07) << 18) | ((b1 & 0x3F) << 12) | ((b2 & 0x3F) << 6) | (b3 & 0x3F))
            i += 4
            continue
        err(i, "invalid start byte")
    return out


def decode_bytes(b, encoding="utf-8", errors="strict"):
    enc = encoding.lower().replace("-", "").replace("_", "")
    if errors != "strict":
        raise Unsupported("decode errors=" + errors)
    items = b.items if isinstance(b, SymBytes) else list(b)
    if enc in ("utf8",):
        cps = _decode_utf8_items(items)
    elif enc in ("ascii",):
        cps = []
        for i, x in enumerate(items):
            if not (x < 0x80):
                raise UnicodeDecodeError("ascii", b"?", i, i + 1, "ordinal not in range(128)")
            cps.append(x)
    elif enc in ("latin1", "iso88591"):
        cps = list(items)
    else:
        raise Unsupported("decode " + encoding)
    return mkstr(cps)


def encode_cps(cps, encoding="utf-8"):
    enc = encoding.lower().replace("-", "").replace("_", "")
    out = []
    for i, c in enumerate(cps):
        if isinstance(c, DecAtom):
            raise Unsupported("encode of a string with a decimal atom")
        if enc == "ascii":
            if not (c < 0x80):
                raise UnicodeEncodeError("ascii", "?", i, i + 1, "ordinal not in range(128)")
            out.append(c)
            continue
        if enc != "utf8":
            raise Unsupported("encode " + encoding)
        if c < 0x80:
            out.append(c)
        elif c < 0x800:
            out.append(0xC0 | (c >> 6))
            out.append(0x80 | (c & 0x3F))
        elif c < 0x10000:
            if (c >= 0xD800) & (c <= 0xDFFF) if isinstance(c, SymInt) else (0xD800 <= c <= 0xDFFF):
                raise UnicodeEncodeError("utf-8", "?", i, i + 1, "surrogates not allowed")
            out.append(0xE0 | (c >> 12))
            out.append(0x80 | ((c >> 6) & 0x3F))
            out.append(0x80 | (c & 0x3F))
        else:
            out.append(0xF0 | (c >> 18))
            out.append(0x80 | ((c >> 12) & 0x3F))
            out.append(0x80 | ((c >> 6) & 0x3F))
            out.append(0x80 | (c & 0x3F))
    return mkbytes(out)


# ------------------------------------------------------------------------------- construction
def mkstr(cps):
    """str if all items are concrete characters, else SymStr (atoms of concrete ints are rendered)."""
    out = []
    sym = False
    for c in cps:
        if isinstance(c, DecAtom):
            if isinstance(c.x, int):
                out.extend(ord(ch) for ch in str(c.x))
                continue
            sym = True
        elif not isinstance(c, int):
            sym = True
        out.append(c)
    if sym:
        return SymStr(out)
    return "".join(chr(c) for c in out)


def cps_of(s):
    if isinstance(s, SymStr):
        return s.cps
    if isinstance(s, str):
        return [ord(c) for c in s]
    return None


def str_of(x):
    """str(x) for a symbolic number."""
    if isinstance(x, SymBool):
        raise Unsupported("str() of a symbolic bool")
    if isinstance(x, SymInt):
        if x.lo < 0:
            if bool(x < 0):
                return mkstr([ord("-"), DecAtom(-x)])
        return SymStr([DecAtom(x)])
    raise Unsupported("str() of %s" % type(x).__name__)


DIGITS = (0x30, 0x39)
WS = (0x20, 0x09, 0x0A, 0x0B, 0x0C, 0x0D)


def _is_ws(c):
    """Is char item c whitespace? (forks if undecided)"""
    if isinstance(c, DecAtom):
        return False
    if isinstance(c, int):
        return c in WS or c in (0x1C, 0x1D, 0x1E, 0x1F, 0x85, 0xA0)
    r = False
    for w in WS:
        e = _char_eq(c, w)
        if e is not False:
            if bool(e):
                return True
    return r


def _items_eq(a, b):
    """Equality of two item lists -> bool | SymBool (atoms aligned with atoms or digit runs)."""
    conds = []
    i = j = 0
    na, nb = len(a), len(b)
    while i < na or j < nb:
        if i >= na or j >= nb:
            return False
        x, y = a[i], b[j]
        xa, ya = isinstance(x, DecAtom), isinstance(y, DecAtom)
        if xa and ya:
            conds.append(x.x == y.x)
            i += 1
            j += 1
            continue
        if xa or ya:
            atom, other, k = (x, b, j) if xa else (y, a, i)
            run = []
            while k < len(other) and isinstance(other[k], int) and DIGITS[0] <= other[k] <= DIGITS[1]:
                run.append(other[k])
                k += 1
            if k < len(other) and isinstance(other[k], SymInt) and _may_be(other[k], *DIGITS) is not False:
                raise Unsupported("decimal atom compared with symbolic digits")
            if k < len(other) and isinstance(other[k], DecAtom):
                raise Unsupported("adjacent decimal atoms")
            if not run or (len(run) > 1 and run[0] == 0x30):
                return False
            conds.append(atom.x == int("".join(chr(c) for c in run)))
            if xa:
                i += 1
                j = k
            else:
                j += 1
                i = k
            continue
        e = x == y if not (isinstance(x, int) and isinstance(y, int)) else x == y
        if e is False:
            return False
        if e is not True:
            conds.append(e)
        i += 1
        j += 1
    conds = [c for c in conds if c is not True]
    for c in conds:
        if c is False:
            return False
    if not conds:
        return True
    r = conds[0]
    for c in conds[1:]:
        r = r & c
    return r


class SymStr:
    """String of items: code point (int | SymInt) or DecAtom."""

    __slots__ = ("cps",)

    def __init__(self, cps):
        self.cps = cps

    def _has_atom(self):
        return any(isinstance(c, DecAtom) for c in self.cps)

    def __len__(self):
        if self._has_atom():
            raise Unsupported("len() of a string with a decimal atom")
        return len(self.cps)

    def __bool__(self):
        return len(self.cps) > 0

    def __hash__(self):
        raise Unsupported("hash of symbolic str")

    def __repr__(self):
        return "<SymStr %d items>" % len(self.cps)

    __str__ = __repr__

    def __format__(self, spec):
        return repr(self)

    def __iter__(self):
        if self._has_atom():
            raise Unsupported("iteration over a string with a decimal atom")
        for c in self.cps:
            yield mkstr([c])

    def _prefix_chars(self, k):
        """The first k items must be plain characters."""
        if k > len(self.cps) or any(isinstance(c, DecAtom) for c in self.cps[:k]):
            raise Unsupported("index into a decimal atom")

    def __getitem__(self, i):
        from .bytes_ import clamp_index

        if isinstance(i, slice):
            if i.step not in (None, 1):
                raise Unsupported("extended slice of SymStr")
            if not self._has_atom():
                n = len(self.cps)
                start = clamp_index(i.start, n, 0)
                stop = clamp_index(i.stop, n, n)
                return mkstr(self.cps[start:stop])
            start, stop = i.start, i.stop
            if isinstance(start, (SymInt, SymBool)) or isinstance(stop, (SymInt, SymBool)):
                raise Unsupported("symbolic slice of a string with a decimal atom")
            items = self.cps
            if stop is not None:
                if stop >= 0:
                    self._prefix_chars(stop)
                    items = items[:stop]
                else:
                    if any(isinstance(c, DecAtom) for c in items[stop:]):
                        raise Unsupported("slice end inside a decimal atom")
                    items = items[:stop]
            if start is not None:
                if start >= 0:
                    if start > len(items) or any(isinstance(c, DecAtom) for c in items[:start]):
                        raise Unsupported("slice start inside a decimal atom")
                    items = items[start:]
                else:
                    if any(isinstance(c, DecAtom) for c in items[start:]):
                        raise Unsupported("slice start inside a decimal atom")
                    items = items[start:]
            return mkstr(items)
        if isinstance(i, (SymInt, SymBool)):
            i = concretize_int(i)
        if i >= 0:
            self._prefix_chars(i + 1)
        elif any(isinstance(c, DecAtom) for c in self.cps[i:]):
            raise Unsupported("index into a decimal atom")
        return mkstr([self.cps[i]])

    def __add__(self, o):
        oc = cps_of(o)
        if oc is None:
            return NotImplemented
        return mkstr(self.cps + oc)

    def __radd__(self, o):
        oc = cps_of(o)
        if oc is None:
            return NotImplemented
        return mkstr(oc + self.cps)

    def __eq__(self, o):
        oc = cps_of(o)
        if oc is None:
            return False
        return _items_eq(self.cps, oc)

    def __ne__(self, o):
        r = self.__eq__(o)
        if isinstance(r, SymBool):
            return SymBool.of(z3.Not(r.t))
        return not r

    def encode(self, encoding="utf-8", errors="strict"):
        return encode_cps(self.cps, encoding)

    # ---------------------------------------------------------------- case
    def _map_case(self, lo, hi, delta):
        out = []
        for c in self.cps:
            if isinstance(c, DecAtom):
                out.append(c)
                continue
            if isinstance(c, int):
                m = chr(c).upper() if delta < 0 else chr(c).lower()
                out.extend(ord(x) for x in m)
                continue
            if c.hi >= 0x80:
                raise Unsupported("case mapping of a possibly non-ASCII symbolic character")
            out.append(ite((c >= lo) & (c <= hi), c + delta, c))
        return mkstr(out)

    def upper(self):
        return self._map_case(0x61, 0x7A, -32)

    def lower(self):
        return self._map_case(0x41, 0x5A, 32)

    # ---------------------------------------------------------------- searching / splitting
    def _match_at(self, pos, lit):
        """Does the literal str `lit` occur at item position pos? -> bool (forks)."""
        items = self.cps
        if pos + len(lit) > len(items):
            # a decimal atom may stand for several characters, but never for non-digits
            pass
        k = pos
        for ch in lit:
            if k >= len(items):
                return False
            it = items[k]
            if isinstance(it, DecAtom):
                if ch.isdigit():
                    raise Unsupported("literal digit matched against a decimal atom")
                return False
            if not bool(_char_eq(it, ord(ch))):
                return False
            k += 1
        return True

    def startswith(self, prefix, *a):
        if a:
            raise Unsupported("startswith with offsets")
        if isinstance(prefix, tuple):
            return any(self.startswith(p) for p in prefix)
        if isinstance(prefix, SymStr):
            raise Unsupported("startswith(SymStr)")
        return self._match_at(0, prefix)

    def endswith(self, suffix):
        if isinstance(suffix, SymStr):
            raise Unsupported("endswith(SymStr)")
        n = len(suffix)
        if n > len(self.cps):
            return False
        tail = self.cps[len(self.cps) - n :]
        return bool(SymStr(tail) == suffix) if any(not isinstance(c, int) for c in tail) else "".join(chr(c) for c in tail) == suffix

    def find(self, sub, start=0):
        if isinstance(sub, SymStr):
            raise Unsupported("find(SymStr)")
        for p in range(start, len(self.cps) - len(sub) + 1):
            if self._match_at(p, sub):
                return p  # NB: an item index, only meaningful for atom-free prefixes
        return -1

    def __contains__(self, sub):
        if isinstance(sub, SymStr):
            raise Unsupported("SymStr in SymStr")
        if sub == "":
            return True
        for p in range(0, len(self.cps) - len(sub) + 1):
            if self._match_at(p, sub):
                return True
        return False

    def strip(self, chars=None):
        if chars is not None:
            raise Unsupported("strip(chars)")
        items = list(self.cps)
        while items and _is_ws(items[0]):
            items.pop(0)
        while items and _is_ws(items[-1]):
            items.pop()
        return mkstr(items)

    def rstrip(self, chars=None):
        if chars is not None:
            raise Unsupported("rstrip(chars)")
        items = list(self.cps)
        while items and _is_ws(items[-1]):
            items.pop()
        return mkstr(items)

    def lstrip(self, chars=None):
        if chars is not None:
            raise Unsupported("lstrip(chars)")
        items = list(self.cps)
        while items and _is_ws(items[0]):
            items.pop(0)
        return mkstr(items)

    def split(self, sep=None, maxsplit=-1):
        items = self.cps
        out = []
        if sep is None:
            cur = []
            n = 0
            i = 0
            while i < len(items):
                it = items[i]
                if _is_ws(it):
                    if cur:
                        out.append(mkstr(cur))
                        cur = []
                        n += 1
                    i += 1
                    continue
                if maxsplit >= 0 and n >= maxsplit and not cur:
                    rest = list(items[i:])
                    while rest and _is_ws(rest[-1]):
                        rest.pop()
                    out.append(mkstr(rest))
                    return out
                cur.append(it)
                i += 1
            if cur:
                out.append(mkstr(cur))
            return out
        if isinstance(sep, SymStr) or sep == "":
            raise Unsupported("split on a symbolic / empty separator")
        cur = []
        i = 0
        n = 0
        while i < len(items):
            if (maxsplit < 0 or n < maxsplit) and self._match_at(i, sep):
                out.append(mkstr(cur))
                cur = []
                n += 1
                i += len(sep)
                continue
            cur.append(items[i])
            i += 1
        out.append(mkstr(cur))
        return out

    def splitlines(self, keepends=False):
        if keepends:
            raise Unsupported("splitlines(keepends)")
        items = self.cps
        out = []
        cur = []
        i = 0
        while i < len(items):
            it = items[i]
            if _is_char(it) and bool(_char_eq(it, 0x0D)):
                out.append(mkstr(cur))
                cur = []
                if i + 1 < len(items) and _is_char(items[i + 1]) and bool(_char_eq(items[i + 1], 0x0A)):
                    i += 1
                i += 1
                continue
            if _is_char(it) and bool(_char_eq(it, 0x0A)):
                out.append(mkstr(cur))
                cur = []
                i += 1
                continue
            cur.append(it)
            i += 1
        if cur:
            out.append(mkstr(cur))
        return out

    def isdigit(self):
        if not self.cps:
            return False
        for it in self.cps:
            if isinstance(it, DecAtom):
                continue
            if not bool(_may_be(it, *DIGITS)):
                return False
        return True

    # ---------------------------------------------------------------- conversions
    def sx_int(self):
        return str_to_int(self)

    def sx_int_base(self, base=10):
        if base != 10:
            raise Unsupported("int(SymStr, base)")
        return str_to_int(self)

    def sx_concretize(self, m):
        from .conv import concretize

        out = []
        for c in self.cps:
            if isinstance(c, DecAtom):
                out.append(str(concretize(c.x, m)))
            else:
                out.append(chr(concretize(c, m)))
        return "".join(out)


def str_to_int(s):
    items = list(s.cps)
    while items and _is_ws(items[0]):
        items.pop(0)
    while items and _is_ws(items[-1]):
        items.pop()
    if len(items) == 1 and isinstance(items[0], DecAtom):
        return items[0].x
    if not items:
        raise ValueError("invalid literal for int() with base 10: ''")
    if any(isinstance(c, DecAtom) for c in items):
        raise Unsupported("int() of a decimal atom mixed with other characters")
    # symbolic characters: a digit string of concrete length
    neg = False
    if isinstance(items[0], int) and items[0] in (0x2B, 0x2D):
        neg = items[0] == 0x2D
        items = items[1:]
    val = 0
    for c in items:
        if not bool(_may_be(c, *DIGITS)):
            raise ValueError("invalid literal for int() with base 10")
        val = val * 10 + (c - 0x30)
    return -val if neg else val


def str_join(sep, seq):
    out = []
    sc = cps_of(sep)
    for i, x in enumerate(seq):
        xc = cps_of(x)
        if xc is None:
            raise TypeError("sequence item %d: expected str instance, %s found" % (i, type(x).__name__))
        if i:
            out.extend(sc)
        out.extend(xc)
    return mkstr(out)


def to_items(v, conv=None):
    """Items of str(v) for f-strings / %-formatting."""
    from .shims import sx_str

    if conv == ord("r"):
        if isinstance(v, (SymStr, SymInt, SymBool)):
            raise Unsupported("repr of a proxy in an f-string")
        return cps_of(repr(v))
    s = sx_str(v)
    c = cps_of(s)
    if c is None:
        raise Unsupported("cannot render %s" % type(v).__name__)
    return c


def fstr_build(parts):
    """f-string with symbolic parts."""
    out = []
    for p in parts:
        if isinstance(p, tuple):
            v, conv, spec = p
            if spec:
                if isinstance(v, (SymStr, SymInt, SymBool)) or type(v).__name__ == "SymRatio":
                    raise Unsupported("format spec on a proxy")
                out.extend(ord(c) for c in format(v, spec))
            elif type(v).__name__ == "SymRatio":
                out.extend(ord(c) for c in "<ratio>")
            else:
                out.extend(to_items(v, conv if conv not in (-1, None) else None))
        else:
            out.extend(ord(c) for c in p)
    return mkstr(out)


def percent_build(fmt, arg):
    try:
        return fmt % arg
    except TypeError:
        return fmt
